"""Shared harness for the ConnectionManager properties (C17, C18): the real connect_loop()/close()/_try_connect() run with the real
asyncio Task/Event/wait/sleep on symx.vloop.VLoop; outcomes, latencies, lifetimes and the instant of close() are solver terms."""
import asyncio, warnings
import z3
from symx import core, vloop
from symx.core import CutPath, PathAbort
from symx.ints import SInt
from spec import c17_trace as CT

SCALE = 2


def run_manager(eng, K, T_max=None, D_max=0, lat_max=2, life_max=2, max_loss=None, configure=None, horizon_extra=400, fixed=None, S_max=None, second=None):
    """returns dict(trace, transports, quiescent, cut, names, loop, T, D)"""
    import han.meter_connection as MC
    warnings.simplefilter("ignore")
    loop = vloop.VLoop(scale=SCALE)
    names = {}
    fixed = fixed or {}

    def param(name, lo, hi):
        if name in fixed:
            return fixed[name]
        if name not in names:
            v = z3.Int(name)
            eng.add(z3.And(v >= lo, v <= hi))
            names[name] = SInt(v)
        return names[name]

    losses = [0]

    def P(name, i):
        if name == "ok":
            return param(f"ok{i}", 0, 1)
        if name == "lat":
            return param(f"lat{i}", 0, lat_max)
        if name == "lost":
            if max_loss is not None and losses[0] >= max_loss:
                return 0
            v = param(f"lost{i}", 0, 1)
            if v == 1:                     # forks; counts the losses on this path
                losses[0] += 1
                return 1
            return 0
        return param(f"life{i}", 0, life_max)

    now_units = lambda: loop.time()
    saved = MC.__dict__.get("datetime")
    MC.datetime = CT.fake_datetime_module(now_units, SCALE)
    T = D = S = None
    if S_max is not None:
        S = eng.pick(S_max + 1)          # close() right after the S-th handle the loop runs; S = 0: before the loop runs anything
    if T_max is not None:
        T = param("T", 0, T_max)
        D = eng.pick(D_max + 1) if D_max else 0

    def sched(fn):
        if T is None:
            return
        def fire(d):
            if d > 0:
                loop.call_soon(fire, d - 1)
            else:
                fn()
        loop.call_at(T, fire, D)

    cut = False
    res = None
    CT.drive.alive.clear()
    asyncio.events._set_running_loop(None)
    try:
        old = None
        try:
            old = asyncio.get_event_loop_policy()._local._loop
        except Exception:
            pass
        asyncio.get_event_loop_policy()._local._loop = loop        # Future() / Queue() created by the code under test bind to this loop
        try:
            trace, transports, task, mgr = CT.drive(MC, loop, P, K, CutPath, sched, now_units, configure)
            close_first = CT.drive.last_close
            if second is not None:
                # a second, independent manager on the same loop (its own factory, transports and trace)
                P2 = lambda name, i: second(name, i, param)
                CT.drive(MC, loop, P2, 50, CutPath, lambda fn: None, now_units, None)
                CT.drive.last_close = close_first
            try:
                if S == 0:
                    CT.drive.last_close()          # close() right after create_task(connect_loop()), before its first step
                with CT.after_nth_handle(S if S else None, CT.drive.last_close) as counter:
                    res = loop.run()
            except CutPath:
                cut = True
            handles = counter.count
        finally:
            asyncio.get_event_loop_policy()._local._loop = old
    finally:
        MC.datetime = saved
        asyncio.events._set_running_loop(None)
    return dict(trace=trace, transports=transports, quiescent=(res == "quiescent") and not cut, cut=cut, names=names, loop=loop, T=T, D=D, S=S, handles=handles, mgr=mgr, task=task)


def witness(r, K, extra=None):
    w = {"K": K, "params": dict(r["names"]), "horizon": 4000}
    w["params"].pop("T", None)
    w["T"] = r["T"]
    w["D"] = r["D"]
    w["S"] = r.get("S")
    if extra:
        w.update(extra)
    return w


def obs_of(trace):
    return [list(e) for e in trace]
