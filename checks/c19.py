"""C19 — reader memory stays bounded on endless streams. Streams prefix . period^m with a FREE period (every path is a class of
patterns over the full alphabet, the solver decides which classes exist) and concrete periods (valid messages back to back, data lines
without end); concrete total length well above the asserted bound. Assert after every read(): retained - |chunk| <= 3*M."""
import sys
import z3
from symx import core, runner, inject
from symx.runner import Scenario
from symx.seq import SBytes, SSeq
from symx.ints import SInt, sym_octet
from checks import hdlc_common as HC, p1_common as PC
from checks.c14 import make_reader
from spec import ref, ref_p1

PROP = "C19"


def retained(obj, seen=None):
    seen = seen if seen is not None else set()
    if id(obj) in seen:
        return 0
    seen.add(id(obj))
    if isinstance(obj, SSeq):
        return len(obj)
    if isinstance(obj, (bytes, bytearray, str)):
        return len(obj)
    if isinstance(obj, (list, tuple, set)):
        return sum(retained(x, seen) for x in obj)
    if isinstance(obj, dict):
        return sum(retained(v, seen) for v in obj.values())
    if hasattr(obj, "__dict__") and type(obj).__module__.startswith("han."):
        return sum(retained(v, seen) for v in vars(obj).values())
    return 0


def limit(which):
    return 3 * (2048 if which.startswith("hdlc") else 8192)


def stream_path(which, prefixes, p_free, periods, total, chunks, ascii_only=False):
    def path(eng, ctx):
        prefix = prefixes[eng.pick(len(prefixes))] if len(prefixes) > 1 else prefixes[0]
        if p_free:
            period = [sym_octet(f"p{i}") for i in range(p_free)]
            if ascii_only:
                for o in period:
                    eng.assume(o < 128)
        else:
            period = list(periods[eng.pick(len(periods))] if len(periods) > 1 else periods[0])
        chunk = chunks[eng.pick(len(chunks))] if len(chunks) > 1 else chunks[0]
        reps = (total - len(prefix)) // len(period) + 1
        stream = list(prefix) + period * reps
        w = {"which": which, "prefix": SBytes(list(prefix)), "period": SBytes(period), "reps": reps, "chunk": chunk}
        ctx.intend(w)
        ctx.witness = w
        rd = make_reader(which)
        worst = 0
        for off in range(0, len(stream), chunk):
            ch = stream[off:off + chunk]
            rd.read(SBytes(ch))
            worst = max(worst, retained(rd) - len(ch))
            if worst > limit(which):
                break
        ctx.obs = [worst > limit(which), len(stream)]
        ctx.nontrivial()
        if worst > limit(which):
            ctx.violation(f"{which}: retained {worst} > {limit(which)} (prefix {bytes(prefix)[:12]!r}, chunk {chunk})", w)
        else:
            ctx.check(True, f"{which} chunk={chunk}", w)
    return path


HDR2047 = [0xA7, 0xFF, 0x03, 0x21, 0x13]
HDLC_PREFIXES = [[], [0x7E], [0x7E] + HDR2047 + [ref.fcs16(HDR2047) & 0xFF, ref.fcs16(HDR2047) >> 8],
                 [0x7E, 0xA0, 0x03, 0x01, 0x01, 0x13, 0xAA, 0xBB]]      # header announcing fewer octets than have already arrived
FRAME = ref.build_frame([0x03], [0x21], 0x13, [0xE6, 0xE7, 0x00, 0x0F, 0x40])
P1_PREFIXES = [[], [0x2F], list(b"/LGF5E360\r\n"), list(b"/LGF5E360\r\n1-0:1.8.0(000123*kWh)\r\n")]
READOUT = ref_p1.build_readout(b"/ADN9 6534", [b"1-0:1.8.0(00006678.394*kWh)", b"1-0:1.7.0(0001.727*kW)"])


def scenarios(tier):
    q = tier == "quick"
    A = inject.assumptions(("hdlc", "p1"))
    out = []
    mh, mp = (5, 4) if q else (8, 8)
    for which in (("hdlc10", "hdlc00") if q else ("hdlc00", "hdlc01", "hdlc10", "hdlc11")):
        out.append(Scenario(f"{which}: prefix . (free period of {2 if q else 3})^m, {mh * 2048} octets", stream_path(which, HDLC_PREFIXES, 2 if q else 3, None, mh * 2048, [3, 4096] if q else [7, 4096, 65536]),
                            bounds={"prefixes": "'' | 7E | 7E + valid header announcing 2047 octets | 7E + frame start whose length field (3) is already exceeded", "free_period_octets": 2 if q else 3, "total_octets": mh * 2048, "chunk_sizes": [3, 4096] if q else [7, 4096, 65536], "bound_asserted": 3 * 2048},
                            domains=("hdlc",), frontier=2, assumptions=A, replay_cap=24, path_budget=1))
        out.append(Scenario(f"{which}: valid frames back to back, {mh * 2048} octets", stream_path(which, [[0x7E]], 0, [FRAME + [0x7E], ref.stuff(FRAME) + [0x7E, 0x7E]], mh * 2048, [1, 7, 4096]),
                            bounds={"period": "a spec frame + flag(s)", "total_octets": mh * 2048}, domains=("hdlc",), frontier=2, assumptions=A, replay_cap=24, path_budget=1))
    p1_free = [(2, 4 * 8192, [64, 4096])] if q else [(3, 5 * 8192, [4096]), (2, 66000, [1024, 65536])]
    for pf, tot, chs in p1_free:
        out.append(Scenario(f"p1: prefix . (free period of {pf})^m, {tot} octets, chunks {chs}", stream_path("p1", P1_PREFIXES, pf, None, tot, chs),
                            bounds={"prefixes": "'' | '/' | ident line | ident line + data line", "free_period_octets": pf, "total_octets": tot, "chunk_sizes": chs, "bound_asserted": 3 * 8192},
                            domains=("p1",), frontier=2, assumptions=A, replay_cap=24, path_budget=1))
    out.append(Scenario(f"p1: concrete periods (readouts back to back; endless data lines; text without LF), {mp * 8192} octets",
                        stream_path("p1", P1_PREFIXES, 0, [READOUT, list(b"1-0:1.8.0(000123*kWh)\r\n"), list(b"0123456789"), list(b"/LGF5E360\r\n")], mp * 8192, [64, 4096] if q else [7, 4096, 65536]),
                        bounds={"chunk_sizes": [64, 4096] if q else [7, 4096, 65536], "periods": "valid readout | data line | 10 characters without LF | identification line", "total_octets": mp * 8192}, domains=("p1",), frontier=2, assumptions=A, replay_cap=24, path_budget=1))
    return out


def main():
    tier = runner.tier_from_argv()
    return runner.run_check(PROP, "model_checking", scenarios(tier), tier,
                            technique="path-wise symbolic execution of the real readers on prefix.period^m streams with a free period (z3 decides which pattern classes exist); retained octet count compared with 3*M after every call",
                            assumptions=["retained size = sum of the lengths of every bytes/bytearray/list reachable from the reader object (octets held), not sys.getsizeof"],
                            outside=["total lengths beyond the stated ones (no MiB-scale runs)", "periods longer than 3 free octets", "chunk sizes other than the listed ones"])


if __name__ == "__main__":
    sys.exit(main())
