"""Shared symbolic harness for the COSEM decoders (C07 Aidon, C08 Kaifa, C09 Kamstrup, C10 date-time).

A documented list (fixture layout or a variant derived from it: phases dropped, elements re-ordered, null padding, CT meter type) is
walked with the independent A-XDR walker of spec/cosem_ref.py; EVERY value octet of every register, scaler, text and clock becomes a
solver variable at once; the real decoder (construct grammar + normalisation) runs on it; the decoded dictionary is compared, value by
value, with the expected dictionary computed by the reference as a function of the same variables."""
import json, os, sys
from fractions import Fraction
import z3
from symx import core, runner, inject
from symx.core import SBool, PathAbort, EngineLimit, EngineFault
from symx.runner import Scenario
from symx.ints import SInt, sym_octet, term, concretize
from symx.seq import SBytes, SStr
from symx.real import SReal, RN, within_rounding
from symx.models import SDateTime
from spec import cosem_ref as CR

ENGINE_EXC = (PathAbort, EngineLimit, EngineFault) + core.HARNESS_SIDE
FX = json.load(open(os.path.join(os.path.dirname(os.path.abspath(__file__)), "..", "spec", "fixtures.json")))


def fixture(meter, name):
    return list(bytes.fromhex(FX[meter][name]))


def ite(c, a, b):
    if isinstance(c, bool):
        return a if c else b
    ct = c.t if isinstance(c, SBool) else z3.BoolVal(bool(c))
    return SInt(z3.If(ct, term(a), term(b)))


def decoder(meter, form):
    import importlib
    mod = importlib.import_module("han." + meter)
    return mod.decode_frame_content if form == "frame" else mod.decode_notification_body


# ------------------------------------------------------------------------------------------------ variants
def children_octets(o, node):
    return [o[k.start:k.end] for k in node.children]


def rebuild(o, body_pos, kids, container_tag, count=None):
    out = list(o[:body_pos]) + [container_tag, len(kids) if count is None else count]
    for k in kids:
        out += list(k)
    return out


def aidon_variant(o, form_pos, keep):
    root = CR.walk(o, form_pos)
    kids = children_octets(o, root)
    return rebuild(o, form_pos, [kids[i] for i in keep], 0x01)


def drop_phases(o, pos, meter):
    """single-phase variant of a three-phase list: elements of L2/L3 removed"""
    root = CR.walk(o, pos, greedy=(meter == "kamstrup"))
    if meter == "aidon":
        kids = [o[k.start:k.end] for k in root.children if o[k.children[0].vstart + 2] not in (51, 71, 52, 72, 41, 61, 42, 62, 43, 63, 44, 64)]
        return rebuild(o, pos, kids, 0x01)
    if meter == "kaifa":
        n = len(root.children)
        drop = {8, 9, 11, 12} if n in (13, 18) else set()
        kids = [o[k.start:k.end] for i, k in enumerate(root.children) if i not in drop]
        return rebuild(o, pos, kids, 0x02)
    raise ValueError(meter)


def kamstrup_pad(o, pos, pads):
    """null-data octets after elements: pads[i] nulls after the i-th (obis, value) pair / the version string"""
    root = CR.walk(o, pos, greedy=True)
    items = [k for k in root.children if k.kind != "null"]
    groups = [[items[0]]] + [[a, b] for a, b in zip(items[1::2], items[2::2])]
    out = list(o[:pos]) + [0x02, len(items)]
    for i, g in enumerate(groups):
        for k in g:
            out += list(o[k.start:k.end])
        out += [0x00] * pads[i % len(pads)]
    return out


# ------------------------------------------------------------------------------------------------ holes
def constrain_clock(eng, c, allow_unspecified=True):
    year = c[0] * 256 + c[1]
    month, day, hour, minute, second, hund = c[2], c[3], c[5], c[6], c[7], c[8]
    dev_raw = c[9] * 256 + c[10]
    dev = z3.If(dev_raw.t >= 32768, dev_raw.t - 65536, dev_raw.t)
    leap = z3.And(year.t % 4 == 0, z3.Or(year.t % 100 != 0, year.t % 400 == 0))
    dim = z3.If(month.t == 2, z3.If(leap, 29, 28), z3.If(z3.Or(month.t == 4, month.t == 6, month.t == 9, month.t == 11), 30, 31))
    eng.add(z3.And(year.t >= 1, year.t <= 9999, month.t >= 1, month.t <= 12, day.t >= 1, day.t <= dim, hour.t <= 23, minute.t <= 59, second.t <= 59,
                   z3.Or(hund.t <= 99, hund.t == 255), z3.Or(dev_raw.t == 0x8000, z3.And(dev >= -720, dev <= 720))))


def make_holes(eng, o, meter, form, free_clocks=True, scaler_range=(-3, 3), tag="x", ct=None, free_scaler=None):
    """replace every value octet of every leaf (registers, scalers, texts, clocks) by a free variable"""
    o = list(o)
    if form == "frame":
        clk, pos = CR.split_frame(o)
    else:
        clk, pos = None, 0
    n = [0]
    scalers = [0]

    def fresh(lo=None, hi=None):
        n[0] += 1
        v = sym_octet(f"{tag}{n[0]}", "int")
        if lo is not None:
            eng.add(z3.And(v.t >= lo, v.t <= hi))
        return v

    def clock_hole(a, b):
        c = [fresh() for _ in range(12)]
        constrain_clock(eng, c)
        o[a:b] = c

    if clk is not None and free_clocks:
        clock_hole(*clk)
    root = CR.walk(o, pos, greedy=(meter == "kamstrup"))

    def visit(node, parent=None, idx=0, is_obis=False):
        if node.kind in ("array", "struct"):
            for i, k in enumerate(node.children):
                ob = k.kind == "octets" and k.end - k.vstart == 6 and (
                    (meter == "aidon" and i == 0 and node.kind == "struct") or
                    (meter != "aidon" and parent is None and _is_obis_slot(meter, node, i, o)))
                visit(k, node, i, ob)
            return
        if node.kind == "null" or is_obis:
            return
        if node.kind in ("u32", "u16", "i16"):
            o[node.vstart:node.end] = [fresh() for _ in range(node.end - node.vstart)]
        elif node.kind == "i8":
            scalers[0] += 1
            if free_scaler is not None and scalers[0] - 1 != free_scaler:
                return                          # only the chosen element's scaler is free on this path (keeps the path count a sum, not a product)
            lo, hi = scaler_range
            v = fresh()
            eng.add(z3.Or(z3.And(v.t >= 0, v.t <= max(hi, 0)), z3.And(v.t >= 256 + min(lo, 0), v.t <= 255)) if lo < 0 else z3.And(v.t >= lo, v.t <= hi))
            o[node.vstart:node.end] = [v]
        elif node.kind in ("visible", "octets"):
            ln = node.end - node.vstart
            if node.kind == "octets" and ln == 12 and _is_clock_slot(meter, parent, idx, o):
                if free_clocks:
                    clock_hole(node.vstart, node.end)
                return
            # any 7-bit ASCII character, NUL and DEL included. A 12-octet octet-string whose octets happen to form a valid COSEM
            # date-time is indistinguishable on the wire from a clock (same tag, same length): 12-character texts keep to
            # 0x20..0x7F, which never is one (month octet >= 0x20) - stated as an assumption of C07-C09.
            chars = [fresh(0x20 if (ln == 12 and node.kind == "octets") else 0x00, 0x7F) for _ in range(ln)]
            if ct is not None and meter == "kamstrup" and parent is not None and idx >= 1 and CR.cde(o[parent.children[idx - 1].vstart:parent.children[idx - 1].end]) == "96.1.1" and ln >= 3:
                is685 = z3.And(chars[0].t == 0x36, chars[1].t == 0x38, chars[2].t == 0x35)
                eng.add(is685 if ct else z3.Not(is685))
                for ch in chars:
                    eng.add(z3.And(ch.t >= 0x30, ch.t <= 0x5A))
            o[node.vstart:node.end] = chars
        # enum (unit) stays concrete: the unit is not part of the decoded dictionary
    visit(root)
    return o


def _is_obis_slot(meter, node, i, o):
    items = [k for k in node.children if k.kind != "null"]
    k = node.children[i]
    if meter == "kamstrup":
        j = items.index(k)
        return j >= 1 and (j - 1) % 2 == 0
    # kaifa: OBIS-tagged list <=> every even item is a 6-octet octet string
    tagged = len(items) % 2 == 0 and all(it.kind == "octets" and it.end - it.vstart == 6 for it in items[0::2])
    return tagged and i % 2 == 0


def _is_clock_slot(meter, parent, idx, o):
    if parent is None:
        return False
    if meter == "aidon":
        return True                              # octet-string content of an Aidon element is a date-time
    if meter == "kaifa":
        items = parent.children
        tagged = len(items) % 2 == 0 and all(it.kind == "octets" and it.end - it.vstart == 6 for it in items[0::2])
        if tagged:
            return idx >= 1 and CR.cde(o[items[idx - 1].vstart:items[idx - 1].end]) == "1.0.0"
        names = CR.KAIFA_POSITIONAL.get(len(items))
        return bool(names) and names[idx] == "meter_datetime"
    items = [k for k in parent.children if k.kind != "null"]
    j = items.index(parent.children[idx])
    return j >= 2 and CR.cde(o[items[j - 1].vstart:items[j - 1].end]) == "1.0.0"


# ------------------------------------------------------------------------------------------------ comparison
def real_of(x):
    if isinstance(x, SReal):
        return x.t
    if isinstance(x, SInt):
        t = x.t
        return z3.ToReal(z3.BV2Int(t, True) if z3.is_bv(t) else t)
    return z3.RealVal(Fraction(x))


def int_term(x):
    return term(x) if isinstance(x, (int, SInt)) else None


def clock_conditions(dt, c):
    f = CR.clock_fields(c, ite)
    if not isinstance(dt, SDateTime):
        return None
    conds = [term(dt.year) == term(f["year"]), term(dt.month) == term(f["month"]), term(dt.day) == term(f["day"]), term(dt.hour) == term(f["hour"]),
             term(dt.minute) == term(f["minute"]), term(dt.second) == term(f["second"]),
             term(dt.microsecond) == z3.If(term(f["hundredths"]) == 255, 0, term(f["hundredths"]) * 10000)]
    unspecified = term(f["dev_raw"]) == 0x8000
    if dt.tzinfo is None:
        conds.append(unspecified)
    else:
        conds += [z3.Not(unspecified), term(dt.tzinfo.offset_minutes) == -term(f["dev"])]
    return z3.And(conds)


def compare(ctx, exp, got, w, label, only=None):
    """value-by-value comparison of the decoded dictionary with the expected one. only: restrict to these kinds (C10: 'clock')"""
    if not isinstance(got, dict):
        ctx.violation(f"{label}: decoder returned {type(got).__name__}", w)
        return False
    if set(got) != set(exp):
        ctx.violation(f"{label}: field names differ: missing {sorted(set(exp) - set(got))} unexpected {sorted(set(got) - set(exp))}", w)
        return False
    for name, e in exp.items():
        g, k = got[name], e[0]
        if only and k not in only:
            continue
        what = f"{label}: {name} ({k})"
        if k in ("scaled", "ratio", "ratio2", "int") and isinstance(g, (int, float)) and not isinstance(g, bool):
            # a concrete number came out (the code concretised the register, e.g. through int.from_bytes): pin the transmitted
            # values to what the path allows (one fork per feasible value) and compare with plain arithmetic
            e = (e[0],) + tuple(concretize(x) if isinstance(x, SInt) else x for x in e[1:])
        if k in ("scaled", "ratio", "ratio2", "int") and isinstance(g, (int, float)) and not isinstance(g, bool) and all(isinstance(x, int) for x in e[1:]):
            r = CR.compare_concrete({name: e}, {name: g})          # everything concrete on this path: plain arithmetic
            ok = ctx.check(z3.BoolVal(r is None), what + " [concrete]", w)
        elif k == "const":
            ok = ctx.check(z3.BoolVal(g == e[1]), what, w)
        elif k == "int":
            gi = int_term(g)
            ok = ctx.check(False if gi is None else (real_of(g) == real_of(e[1])), what, w)
        elif k == "text":
            if isinstance(g, str):
                g = SStr(g)
            ok = ctx.check(False if not isinstance(g, SStr) else g.seq_eq(SStr(list(e[1]))), what, w)
        elif k == "clock":
            c = clock_conditions(g, e[1])
            ok = ctx.check(False if c is None else c, what, w)
        elif k == "scaled":
            ex = concretize(e[2]) if isinstance(e[2], SInt) else e[2]
            exact = real_of(e[1]) * z3.RealVal(Fraction(10) ** ex)
            if isinstance(g, SReal):
                ok = ctx.check(z3.Or(g.t == exact, g.t == RN(exact)), what + ": register*10^scaler exactly, or its correctly rounded float", w, relaxed=True)
            else:
                ok = ctx.check(False if int_term(g) is None else (real_of(g) == exact), what + ": exact", w)
        elif k == "ratio":
            exact = real_of(e[1]) / e[2]
            if isinstance(g, SReal):
                ok = True
                if g.round_int is not None:      # result of round(x, n): first the integer it rounded to, then (by congruence) the float
                    ok = ctx.check(real_of(g.round_int) == real_of(e[1]), what + ": round() picks the transmitted register", w, relaxed=True, learn=True)
                ok = ok and ctx.check(g.t == RN(exact), what + f": correctly rounded register/{e[2]}", w, relaxed=True)
            else:
                ok = ctx.check(False if int_term(g) is None else (real_of(g) == exact), what + f": register/{e[2]}", w)
        elif k == "ratio2":
            exact = real_of(e[1]) / e[2]
            if isinstance(g, SReal):
                ok = ctx.check(within_rounding(g, exact, ulps=2), what + f": register/{e[2]} to within 2 ulp", w, relaxed=True)
            else:
                ok = ctx.check(False if int_term(g) is None else (real_of(g) == exact), what + f": register/{e[2]}", w)
        else:
            ok = False
        if not ok:
            return False
    return True


def sym_obs(d):
    if not isinstance(d, dict):
        return repr(d)
    out = []
    for k in sorted(d):
        v = d[k]
        out.append([k, v if isinstance(v, (str, SStr)) else ("#" if isinstance(v, (int, float, SInt, SReal)) else "~")])
    return out


def is_ct_sym(chars):
    return len(chars) >= 3 and bool(chars[0] == 0x36) and bool(chars[1] == 0x38) and bool(chars[2] == 0x35)


def decode_and_compare(eng, ctx, meter, octets, form, label, only=None, both_forms=True, before=()):
    """runs the real decoder on the (symbolic) octets and compares with the reference; then the other form of the same list.
    before: messages decoded first in the same process (a decoder must not carry state from one message to the next)"""
    data = SBytes(octets)
    w = {"meter": meter, "form": form, "data": data, "other_form": bool(both_forms and form == "frame"), "before": [SBytes(list(b)) for b in before]}
    ctx.intend(w)
    for b in before:
        try:
            decoder(meter, form)(SBytes(list(b)))
        except ENGINE_EXC:
            raise
        except Exception:
            pass
    ctx.witness = w
    ctx.nontrivial()
    try:
        got = decoder(meter, form)(data)
    except ENGINE_EXC:
        raise
    except Exception as e:
        ctx.violation(f"{label}: {type(e).__name__} raised on a well-formed list: {e}", w)
        return None
    ctx.obs = sym_obs(got)
    exp = CR.expected(meter, octets, form, ite, is_ct_sym)
    if not compare(ctx, exp, got, w, f"{label} [{form}]", only):
        return None
    if both_forms and form == "frame":
        _, pos = CR.split_frame(octets)
        body = octets[pos:]
        try:
            got2 = decoder(meter, "body")(SBytes(body))
        except ENGINE_EXC:
            raise
        except Exception as e:
            ctx.violation(f"{label}: body decoding raised {type(e).__name__}: {e}", w)
            return None
        exp2 = CR.expected(meter, body, "body", ite, is_ct_sym)
        compare(ctx, exp2, got2, {"meter": meter, "form": "body", "data": SBytes(body)}, f"{label} [body]", only)
    return got
