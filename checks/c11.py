"""C11 — P1 readouts parse into the transmitted data sets and decode with exact units.
Data blocks are generated from the IEC 62056-21 syntax with free digits (integer and fraction lengths enumerated), free unit letter case,
free text characters, a free (valid) clock, multi-value and multi-data-set lines, LF/CRLF/blank lines; the real parser and decoder run on
them (regex and float()/int() models); per path the solver proves the structure, the names, exact-1 <= W/Wh/var/varh <= exact (delta-model),
V/A = rn(value), the clock fields and verbatim texts, and that the three entry points agree."""
import sys
from fractions import Fraction
import z3
from symx import core, runner, inject
from symx.core import SBool, PathAbort, EngineLimit, EngineFault
from symx.runner import Scenario
from symx.ints import SInt, sym_octet, term
from symx.seq import SBytes, SStr
from symx.real import SReal, RN
from symx.models import SDateTime
from checks import p1_common as PC

PROP = "C11"
ENGINE_EXC = (PathAbort, EngineLimit, EngineFault) + core.HARNESS_SIDE
KFAM = [("1-0:1.7.0", "kW", "active_power_import"), ("1-0:1.8.0", "kWh", "active_power_import_total"), ("1-0:3.7.0", "kvar", "reactive_power_import"), ("1-0:4.8.0", "kvarh", "reactive_power_export_total")]
VFAM = [("1-0:32.7.0", "V", "voltage_l1"), ("1-0:31.7.0", "A", "current_l1"), ("1-0:99.1.0", "var", "99.1.0"), ("1-0:99.2.0", "varh", "99.2.0")]


def free_case(eng, text, name):
    """letters of `text` with free case"""
    out = []
    for i, ch in enumerate(text):
        c = sym_octet(f"{name}{i}", "int")
        eng.add(z3.Or(c.t == ord(ch.lower()), c.t == ord(ch.upper())))
        out.append(c)
    return out


def digits(eng, name, n):
    ds = []
    for i in range(n):
        d = sym_octet(f"{name}{i}", "int")
        eng.add(z3.And(d.t >= 48, d.t <= 57))
        ds.append(d)
    return ds


def number_of(ds):
    v = 0
    for d in ds:
        v = v * 10 + (d - 48)
    return v


def clock_digits(eng):
    ds = digits(eng, "t", 12)
    yy, mo, dd, hh, mi, ss = [number_of(ds[i:i + 2]) for i in range(0, 12, 2)]
    year = yy.t + 2000
    leap = z3.And(year % 4 == 0, z3.Or(year % 100 != 0, year % 400 == 0))
    dim = z3.If(mo.t == 2, z3.If(leap, 29, 28), z3.If(z3.Or(mo.t == 4, mo.t == 6, mo.t == 9, mo.t == 11), 30, 31))
    eng.add(z3.And(mo.t >= 1, mo.t <= 12, dd.t >= 1, dd.t <= dim, hh.t <= 23, mi.t <= 59, ss.t <= 59))
    return ds, (yy + 2000, mo, dd, hh, mi, ss)


def sstr(x):
    return x if isinstance(x, SStr) else SStr(x if isinstance(x, str) else list(x))


def text_eq(a, b):
    if a is None or b is None:
        return z3.BoolVal(a is None and b is None)
    return sstr(a).seq_eq(sstr(b))


def check_parsed(ctx, parsed, expect_sets, w, label):
    """parsed: list[DataSet]; expect_sets: [(address chars, [(value chars, unit chars|None)])]"""
    if len(parsed) != len(expect_sets):
        ctx.violation(f"{label}: {len(parsed)} data sets parsed, {len(expect_sets)} transmitted", w)
        return False
    conds = []
    for ds, (addr, vals) in zip(parsed, expect_sets):
        if len(ds.values) != len(vals):
            ctx.violation(f"{label}: data set with {len(ds.values)} values, {len(vals)} transmitted", w)
            return False
        conds.append(text_eq(ds.address, addr))
        for v, (ev, eu) in zip(ds.values, vals):
            conds += [text_eq(v.value, ev), text_eq(v.unit, eu)]
    return ctx.check(z3.And(conds), f"{label}: parsed data sets == transmitted (addresses, values, units, order)", w)


def values_path(max_digits):
    def path(eng, ctx):
        import han.dlde as D, han.autodecoder as AD
        i_len = 1 + eng.pick(min(6, max_digits))
        f_len = eng.pick(min(4, max_digits - i_len + 1))
        fam = eng.pick(4)
        eol = [13, 10] if eng.pick(2) == 0 else [10]
        addr, unit, name = KFAM[fam]
        ki, kf = digits(eng, "i", i_len), digits(eng, "f", f_len)
        kchars = ki + ([46] + kf if f_len else [])
        unit_chars = free_case(eng, unit, "u")
        vaddr, vunit, vname = VFAM[fam]
        vi, vf = digits(eng, "v", 3), digits(eng, "w", 1)
        vchars = vi + [46] + vf
        vunit_chars = free_case(eng, vunit, "x")
        idc = [PC.free_printable(f"m{i}", exclude=(0x21, 0x28, 0x29, 0x2A, 0x2F)) for i in range(4)]
        clk, fields = clock_digits(eng)
        clock_addr = ["0-0:1.0.0", "1.0.0", "0:1.0.0", "1-0:1.0.0", "0-0:1.0.0*255"][eng.pick(5)]     # any reduced form of the clock object
        lines = [list(addr.encode()) + [40] + kchars + [42] + unit_chars + [41],
                 [],
                 list(vaddr.encode()) + [40] + vchars + [42] + vunit_chars + [41],
                 list(b"0-0:96.1.0(") + idc + [41],
                 list(clock_addr.encode()) + [40] + clk + list(b"W)")]
        content = []
        for ln in lines:
            content += ln + eol
        ident = None
        # another block decoded first in the same process (a decoder must not carry fields from one message to the next)
        before = b"1-0:31.7.0(001*A)\r\n1-0:1.8.0(000123.456*kWh)\r\n1-0:2.8.0(000000.001*kWh)\r\n0-0:96.13.0(text)\r\n"
        # ... and the very addresses of this block sent with another kind of unit (the conversion follows the unit transmitted now,
        # not what an address carried earlier in the process)
        before += (f"{addr}(00001*W)\r\n{vaddr}(0.001*kWh)\r\n0-0:96.1.0(1.5*kW)\r\n{clock_addr}(230.1*V)\r\n").encode()
        w = {"content": SBytes(content), "before": SBytes(list(before))}
        ctx.intend(w)
        if ident:
            w["ident"] = SBytes(ident)
        ctx.witness = w
        ctx.nontrivial()
        try:
            D.decode_p1_readout_content(SBytes(list(before)))
            parsed = D.parse_p1_readout_content(SBytes(content))
            decoded = D.decode_p1_readout_content(SBytes(content))
        except ENGINE_EXC:
            raise
        except Exception as e:
            ctx.violation(f"{type(e).__name__} raised on a well-formed data block: {e}", w)
            return
        ctx.obs = [[d.address, [[v.value, v.unit] for v in d.values]] for d in parsed]
        expect_sets = [(addr, [(kchars, unit_chars)]), (vaddr, [(vchars, vunit_chars)]), ("0-0:96.1.0", [(idc, None)]), (clock_addr, [(clk + [ord("W")], None)])]
        if not check_parsed(ctx, parsed, expect_sets, w, "values"):
            return
        want = {name, vname, "meter_id", "meter_datetime"}
        if set(decoded) != want:
            ctx.violation(f"decoded field names {sorted(decoded)} != {sorted(want)}", w)
            return
        # kW family: exact-1 <= result <= exact, exact = digits * 10^(3-f)
        N = number_of(ki + kf)
        exact = z3.ToReal(N.t) * z3.RealVal(Fraction(10) ** (3 - f_len)) if isinstance(N, SInt) else z3.RealVal(Fraction(N) * Fraction(10) ** (3 - f_len))
        g = decoded[name]
        gi = term(g) if isinstance(g, (int, SInt)) else None
        if gi is None:
            ctx.violation(f"{name}: not an int ({type(g).__name__})", w)
            return
        if not ctx.check(z3.And(z3.ToReal(gi) <= exact, z3.ToReal(gi) >= exact - 1), f"{name}: exact-1 <= int(float(v)*1000) <= exact (i={i_len}, f={f_len})", w, relaxed=True):
            return
        V = number_of(vi + vf)
        gv = decoded[vname]
        if not isinstance(gv, SReal):
            ctx.violation(f"{vname}: not a float", w)
            return
        if not ctx.check(gv.t == RN(z3.ToReal(V.t) / 10), f"{vname}: float of the transmitted number", w, relaxed=True):
            return
        if not ctx.check(text_eq(decoded["meter_id"], idc), "meter_id verbatim", w):
            return
        dt = decoded["meter_datetime"]
        if not isinstance(dt, SDateTime):
            ctx.violation("meter_datetime is not a datetime", w)
            return
        conds = [term(a) == term(b) for a, b in zip((dt.year, dt.month, dt.day, dt.hour, dt.minute, dt.second), fields)] + [z3.BoolVal(dt.tzinfo is None), term(dt.microsecond) == 0]
        if not ctx.check(z3.And(conds), "meter_datetime == transmitted local date-time", w):
            return
        # the three entry points agree
        try:
            a1 = AD.AutoDecoder().decode_message_payload(SBytes(content))
        except ENGINE_EXC:
            raise
        if not same_dict(ctx, a1, decoded, w, "AutoDecoder.decode_message_payload == decode_p1_readout_content"):
            return
        if ident:
            raw = SBytes(ident + [13, 10] + content + list(b"!\r\n"))
            ro = D.DataReadout(raw)
            r2 = D.decode_p1_readout(ro)
            a2 = AD.AutoDecoder().decode_message(D.DataReadout(raw))
            man, typ = r2.pop("meter_manufacturer_id", None), r2.pop("meter_type_id", None)
            if not same_dict(ctx, r2, decoded, w, "decode_p1_readout == decode_p1_readout_content (+ identification fields)"):
                return
            a2 = dict(a2)
            a2.pop("meter_manufacturer_id", None), a2.pop("meter_type_id", None)
            if not same_dict(ctx, a2, decoded, w, "AutoDecoder.decode_message == decode_p1_readout"):
                return
            ctx.check(text_eq(man, ident[1:4]), "manufacturer id = the three flag-id letters", w)
            ctx.check(text_eq(typ, ident[5:]) if typ is not None else z3.BoolVal(len(ident) == 5), "type id = identification after the baud digit", w)
    return path


def free_ident(eng):
    """XXXZ + 1..4 printable id characters (first not a backslash/blank so that the id is unambiguous)"""
    a = [sym_octet(f"g{i}", "int") for i in range(3)]
    eng.add(z3.And(a[0].t >= 65, a[0].t <= 90, a[1].t >= 65, a[1].t <= 90, z3.Or(z3.And(a[2].t >= 65, a[2].t <= 90), z3.And(a[2].t >= 97, a[2].t <= 122))))
    z = sym_octet("gz", "int")
    eng.add(z3.And(z.t >= 48, z.t <= 57))
    n = 1 + eng.pick(3)
    idc = []
    for i in range(n):
        c = sym_octet(f"gi{i}", "int")
        eng.add(z3.And(c.t >= 0x21, c.t <= 0x7E, c.t != 0x5C))
        idc.append(c)
    return a + [z] + idc


def num_eq(a, b):
    if isinstance(a, SReal) or isinstance(b, SReal):
        ta = a.t if isinstance(a, SReal) else z3.ToReal(term(a))
        tb = b.t if isinstance(b, SReal) else z3.ToReal(term(b))
        return ta == tb
    return term(a) == term(b)


def same_dict(ctx, a, b, w, what):
    if not isinstance(a, dict) or set(a) != set(b):
        ctx.violation(f"{what}: keys differ", w)
        return False
    conds = []
    for k in b:
        x, y = a[k], b[k]
        if isinstance(y, SDateTime):
            conds += [term(getattr(x, f)) == term(getattr(y, f)) for f in SDateTime.FIELDS] if isinstance(x, SDateTime) else [z3.BoolVal(False)]
        elif isinstance(y, (SStr, str)):
            conds.append(text_eq(x, y) if isinstance(x, (SStr, str)) else z3.BoolVal(False))
        elif isinstance(x, (int, float)) and isinstance(y, (int, float)):
            conds.append(z3.BoolVal(x == y and type(x) is type(y)))
        else:
            # floats: both sides come from the same model applications on the same terms (uninterpreted rn is a function)
            conds.append(num_eq(x, y) if isinstance(x, (int, SInt, SReal)) and isinstance(y, (int, SInt, SReal)) else z3.BoolVal(False))
    return ctx.check(z3.And(conds), what, w, relaxed=True)


def structure_path():
    """multi-value data sets, several data sets on a line, blank lines, LF and CRLF"""
    def path(eng, ctx):
        import han.dlde as D
        d = digits(eng, "d", 6)
        eol = [13, 10] if eng.pick(2) == 0 else [10]
        n_extra = eng.pick(3)                              # values in the multi-value set: 2..4
        vals = [([d[0]], None), (list(b"0-0:96.7.19"), None), (d[1:4] + [ord("W")], None), (d[4:6], list(b"s"))][:2 + n_extra]
        line1 = list(b"1-0:99.97.0") + [c for v, u in vals for c in [40] + v + ([42] + u if u else []) + [41]]
        line2 = list(b"1-0:1.8.0(") + d[0:3] + list(b"*kWh)") + list(b"1-0:2.8.0(") + d[3:6] + list(b"*kWh)")
        line3 = list(b"0-0:96.13.0()")
        content = line1 + eol + eol + line2 + eol + [32, 32] + eol + line3 + eol
        w = {"content": SBytes(content)}
        ctx.intend(w)
        ctx.witness = w
        ctx.nontrivial()
        try:
            parsed = D.parse_p1_readout_content(SBytes(content))
            decoded = D.decode_p1_readout_content(SBytes(content))
        except ENGINE_EXC:
            raise
        except Exception as e:
            ctx.violation(f"{type(e).__name__} raised on a well-formed data block: {e}", w)
            return
        ctx.obs = [[x.address, [[v.value, v.unit] for v in x.values]] for x in parsed]
        expect = [("1-0:99.97.0", vals), ("1-0:1.8.0", [(d[0:3], "kWh")]), ("1-0:2.8.0", [(d[3:6], "kWh")]), ("0-0:96.13.0", [([], None)])]
        if not check_parsed(ctx, parsed, expect, w, "structure"):
            return
        want = {"active_power_import_total", "active_power_export_total", "96.13.0"}
        if set(decoded) != want:
            ctx.violation(f"decoded field names {sorted(decoded)} != {sorted(want)} (multi-valued data sets are not decoded)", w)
            return
        a, b = term(decoded["active_power_import_total"]), term(decoded["active_power_export_total"])
        ea, eb = term(number_of(d[0:3])) * 1000, term(number_of(d[3:6])) * 1000
        ctx.check(z3.And(a <= ea, a >= ea - 1, b <= eb, b >= eb - 1), "kWh values: exact-1 <= Wh <= exact", w, relaxed=True)
    return path


def entry_points_path():
    """whole readout (identification line with free characters + data block with a free digit): decode_p1_readout, AutoDecoder.decode_message
    and decode_message_payload agree; manufacturer id and type id come from the identification line. Octets are bit-vectors here (CRC16 runs)."""
    def path(eng, ctx):
        import han.dlde as D, han.autodecoder as AD
        a = [sym_octet(f"g{i}") for i in range(3)]
        eng.assume((a[0] >= 65) & (a[0] <= 90) & (a[1] >= 65) & (a[1] <= 90) & (((a[2] >= 65) & (a[2] <= 90)) | ((a[2] >= 97) & (a[2] <= 122))))
        z = PC.free_digit("gz")
        n = 1 + eng.pick(3)
        idc = [PC.free_printable(f"gi{i}", exclude=(0x5C, 0x20, 0x21, 0x2F)) for i in range(n)]
        ident = [0x2F] + a + [z] + idc
        d = PC.free_digit("d")
        if eng.pick(2) == 0:
            content = list(b"1-0:1.7.0(0001.7") + [d] + list(b"7*kW)\r\n1-0:32.7.0(233.9*V)\r\n0-0:96.1.0(4699)\r\n")
        else:           # a block whose data sets all carry several values (gas reading with its time stamp, power-failure log): decodes to no field
            content = list(b"0-1:24.2.1(10120912000") + [d] + list(b"W)(12785.123*m3)\r\n1-0:99.97.0(1)(0-0:96.7.19)(00000002") + [d] + list(b"*s)\r\n")
        w = {"content": SBytes(content), "ident": SBytes(ident)}
        ctx.intend(w)
        ctx.witness = w
        ctx.nontrivial()
        try:
            decoded = D.decode_p1_readout_content(SBytes(content))
            parsed = D.parse_p1_readout_content(SBytes(content))
            raw = SBytes(ident + [13, 10] + content + list(b"!\r\n"))
            r2 = D.decode_p1_readout(D.DataReadout(raw))
            a2 = AD.AutoDecoder().decode_message(D.DataReadout(raw))
            a1 = AD.AutoDecoder().decode_message_payload(SBytes(content))
        except ENGINE_EXC:
            raise
        except Exception as e:
            ctx.violation(f"{type(e).__name__} raised on a well-formed readout: {e}", w)
            return
        ctx.obs = [[x.address, [[v.value, v.unit] for v in x.values]] for x in parsed]
        if a1 is None or a2 is None:
            ctx.violation("AutoDecoder returned None for a well-formed readout", w)
            return
        if not same_dict(ctx, a1, decoded, w, "AutoDecoder.decode_message_payload == decode_p1_readout_content"):
            return
        r2, a2 = dict(r2), dict(a2)
        man, typ = r2.pop("meter_manufacturer_id", None), r2.pop("meter_type_id", None)
        man2, typ2 = a2.pop("meter_manufacturer_id", None), a2.pop("meter_type_id", None)
        if not same_dict(ctx, r2, decoded, w, "decode_p1_readout == decode_p1_readout_content (+ identification fields)"):
            return
        if not same_dict(ctx, a2, decoded, w, "AutoDecoder.decode_message == decode_p1_readout"):
            return
        ctx.check(z3.And(text_eq(man, a), text_eq(man2, a)), "manufacturer id = the three flag-id letters", w)
        ctx.check(z3.And(text_eq(typ, idc), text_eq(typ2, idc)), "type id = identification after the baud digit", w)
    return path


def scenarios(tier):
    q = tier == "quick"
    A = inject.assumptions(("p1", "obis", "decoders"))
    md = 7 if q else 11
    return [Scenario(f"values: kW-family value with i.f digits (i+f <= {md}), free unit case, V-family value, free text, free clock, optional identification line", values_path(md),
                     bounds={"digits": f"integer part 1..6, fraction 0..3, total <= {md}; every digit free", "units": "kW kWh kvar kvarh / V A var varh, each letter free in case", "text": "4 free printable characters",
                             "clock": "12 free digits forming a valid date-time, address in any reduced form (0-0:1.0.0 | 1.0.0 | 0:1.0.0 | 1-0:1.0.0 | 0-0:1.0.0*255)", "line_ends": "CRLF | LF", "identification": "absent | 3 free letters + free baud digit + 1..3 free characters", "entry points": "parse, decode content, AutoDecoder payload, decode readout, AutoDecoder message"},
                     domains=("p1", "obis", "decoders"), frontier=3, assumptions=A, replay_cap=200, path_budget=2),
            Scenario("entry points: readout with free identification characters and a free digit through decode_p1_readout / AutoDecoder.decode_message / decode_message_payload", entry_points_path(),
                     bounds={"identification": "3 free flag-id letters, free baud digit, 1..3 free printable id characters", "free": "one value digit"}, domains=("p1", "obis", "decoders"), frontier=4, assumptions=A, replay_cap=80),
            Scenario("structure: multi-value data set (2..4 values), two data sets on one line, blank lines, empty value, LF/CRLF", structure_path(),
                     bounds={"free": "6 digits", "values_per_set": "2..4", "sets_per_line": 2}, domains=("p1", "obis", "decoders"), frontier=3, assumptions=A, replay_cap=60)]


def main():
    tier = runner.tier_from_argv()
    return runner.run_check(PROP, "model_checking", scenarios(tier), tier,
                            technique="symbolic execution of the real P1 parser/decoder on syntax-generated data blocks with free digits/letters (regex interpreted symbolically; float()/int() in the relative-error model, sat answers replayed with real floats); z3 per path",
                            assumptions=["float(text) is correctly rounded; x*1000 rounds once; int() truncates (standard relative-error model, |delta| <= 2^-53)"],
                            outside=["more digits than stated", "more than 4 values per data set / 2 data sets per line", "free OBIS addresses (addresses are concrete members of the documented table plus unknown ones)"])


if __name__ == "__main__":
    sys.exit(main())
