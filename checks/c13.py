"""C13 — protocols forward exactly the selected reader's messages, payloads only if valid.
Lemma: candidate readers are stubs whose read() returns 0..m messages per call, each with a free is_valid and a free payload kind
(None / empty / non-empty); because the protocol sees readers only through read()/is_valid/payload this covers every stream and
chunking up to the message counts. Corollary: the real HDLC and P1 readers on clean streams, every candidate order."""
import sys, asyncio, warnings
import z3
from symx import core, runner, inject
from symx.core import SBool, PathAbort, EngineLimit, EngineFault
from symx.runner import Scenario
from symx.ints import SInt, concretize, sym_octet
from symx.seq import SBytes
from checks import hdlc_common as HC, p1_common as PC
from checks.c14 import make_reader
from spec import ref, ref_p1, concrete as CC

PROP = "C13"


class Msg:
    def __init__(self, key, eng):
        self.key = key
        name = "_".join(map(str, key))
        self._valid = SBool(z3.Bool(f"valid_{name}"))
        k = z3.Int(f"pk_{name}")
        eng.add(z3.And(k >= 0, k <= 2))
        self._kind = SInt(k)

    @property
    def is_valid(self):
        return self._valid

    @property
    def payload(self):
        k = concretize(self._kind)
        return None if k == 0 else (b"" if k == 1 else b"P%d.%d.%d" % tuple(self.key))

    @property
    def as_bytes(self):
        return b"\x00"

    @property
    def message_type(self):
        from han.common import MeterMessageType
        return MeterMessageType.UNKNOWN

    def __len__(self):
        return 1


class StubReader:
    def __init__(self, r, eng, calls, maxmsgs, clock):
        self.r, self.calls, self.clock = r, 0, clock
        self.plan = []
        for c in range(calls):
            n = z3.Int(f"n_{r}_{c}")
            eng.add(z3.And(n >= 0, n <= maxmsgs))
            self.plan.append((SInt(n), [Msg([r, c, i], eng) for i in range(maxmsgs)]))
        self.returned = [[] for _ in range(calls)]
        # real readers expose is_in_hunt_mode; to the protocol it is one more free observation per call
        self.hunt = [SBool(z3.Bool(f"hunt_{r}_{c}")) for c in range(calls)]

    @property
    def is_in_hunt_mode(self):
        return self.hunt[self.clock[0]]

    def read(self, data):
        c = self.clock[0]                 # plan[c] = what this reader makes of the c-th chunk; a candidate that is not fed a chunk loses it
        n, msgs = self.plan[c]
        out = msgs[:concretize(n)]
        self.returned[c] = out
        self.calls += 1
        return out

    def full_plan(self):
        return [msgs[:concretize(n)] for n, msgs in self.plan]


def lemma_path(proto, readers, calls, maxmsgs):
    def path(eng, ctx):
        import han.meter_connection as MC
        warnings.simplefilter("ignore")
        loop = asyncio.new_event_loop()
        asyncio.set_event_loop(loop)
        try:
            clock = [0]
            rs = [StubReader(i, eng, calls, maxmsgs, clock) for i in range(readers)]
            q = asyncio.Queue()
            p = (MC.SmartMeterMessagePayloadProtocol if proto == "payload" else MC.SmartMeterMessageProtocol)(q, rs)
            for c in range(calls):
                clock[0] = c
                p.data_received(b"chunk")
            got = []
            while not q.empty():
                x = q.get_nowait()
                got.append([int(v) for v in x[1:].split(b".")] if isinstance(x, bytes) else list(x.key))
        finally:
            asyncio.set_event_loop(None)
            loop.close()
        # the whole plan, also for chunks a reader was not given: while nobody is selected every candidate must see every chunk (a
        # candidate that is skipped can never become the selected reader, and the clean-stream corollary fails for that candidate order)
        full = [r.full_plan() for r in rs]
        plan = [[[[m._valid, m._kind] for m in full[i][c]] for c in range(calls)] for i in range(len(rs))]
        w = {"sub": "stub", "proto": proto, "plan": plan, "hunt": [list(r.hunt) for r in rs]}
        ctx.witness, ctx.obs = w, got
        ctx.nontrivial()
        # reference over the same Booleans (forks are consistent with the path)
        selected, expect = None, []
        for c in range(calls):
            if selected is None:
                for ri, r in enumerate(rs):
                    if any(bool(m._valid) for m in full[ri][c]):
                        selected = ri
                        break
            if selected is not None:
                for i, m in enumerate(full[selected][c]):
                    if proto == "payload":
                        if bool(m._valid) and concretize(m._kind) == 2:
                            expect.append(list(m.key))
                    else:
                        expect.append(list(m.key))
        ctx.reach("selected" if selected is not None else "none-selected")
        ctx.check(z3.BoolVal(got == expect), f"{proto}: queue == reference selection (got {got}, expected {expect})", w)
    return path


def real_path(proto, readers, kind):
    def path(eng, ctx):
        import han.meter_connection as MC
        warnings.simplefilter("ignore")
        if kind == "hdlc":
            x = sym_octet("x")
            f1 = HC.build_frame([0x03], [0x21], 0x13, [0xE6, x, 0x00])
            f2 = ref.build_frame([0x03], [0x21], 0x13, [])            # header-only frame: valid but empty payload -> not forwarded as payload
            f3 = ref.build_frame([0x02, 0x23], [0x21], 0x32, [0x0F, 0x40])
            for o in f1[:8]:
                if not isinstance(o, int):
                    eng.assume(o != 0x7E)
            stuffing = any(r in ("hdlc10", "hdlc11") for r in readers)      # the candidate HDLC reader uses octet stuffing: frames are stuffed on the wire
            wire = (lambda f: HC.sym_stuff(f)) if stuffing else (lambda f: list(f))
            stream = SBytes([0x7E] + wire(f1) + [0x7E] + wire(f2) + [0x7E, 0x7E] + wire(f3) + [0x7E])
            payloads = [SBytes([0xE6, x, 0x00]), None, SBytes([0x0F, 0x40])]
        else:
            d = PC.free_digit("d")
            c1, c2 = PC.free_printable("c1", exclude=(0x21, 0x28, 0x29, 0x2F)), PC.free_printable("c2", exclude=(0x21, 0x28, 0x29, 0x2F))     # may be '~' = 0x7E, the HDLC flag
            r1 = PC.build_readout(PC.IDENT, [list(b"1-0:1.8.0(0012") + [d] + list(b"*kWh)"), list(b"0-0:96.13.0(") + [c1] + list(b"23456789") + [c2] + [0x29]], checksum=False)
            r2 = ref_p1.build_readout(b"/ADN9 6534", [b"1-0:1.7.0(00.332*kW)"])
            r3 = ref_p1.build_readout(b"/LGF5E360", [b"1-0:2.7.0(00.000*kW)"], checksum=False)
            stream = SBytes(r1 + r2 + r3)
            payloads = [SBytes(r1[len(PC.IDENT) + 2:r1.index(0x21)]), SBytes(r2[12:r2.index(0x21)]), SBytes(r3[11:r3.index(0x21)])]
            bounds_ = [len(r1), len(r1) + len(r2)]
        n = len(stream)
        if kind == "hdlc":
            s_ = list(stream)
            fl = [i for i, x in enumerate(s_) if isinstance(x, int) and x == 0x7E]
            bounds_ = [fl[1] + 1, fl[2] + 1] if len(fl) > 3 else [n // 2]
        expect = [p for p in payloads if p is not None] if proto == "payload" else payloads
        # one call, cuts inside messages, cuts exactly between messages (the reader is empty when the next chunk arrives), a chunk of line ends only
        cutsets_ = [(), (n // 3,), (n // 2,), (n - 4,), (5, n // 2), (bounds_[0],), tuple(bounds_), (bounds_[0] - 2, bounds_[0])]
        for cuts in cutsets_:
            chunks = HC.split(stream, cuts)
            w = {"sub": "real", "proto": proto, "readers": list(readers), "chunks": chunks, "expect": expect}
            ctx.intend(w, alts=lambda: ({"sub": "real", "proto": proto, "readers": list(readers), "chunks": HC.split(stream, c), "expect": expect} for c in cutsets_))
            loop = asyncio.new_event_loop()
            asyncio.set_event_loop(loop)
            try:
                q = asyncio.Queue()
                p = (MC.SmartMeterMessagePayloadProtocol if proto == "payload" else MC.SmartMeterMessageProtocol)(q, [make_reader(r) for r in readers])
                try:
                    for ch in chunks:
                        p.data_received(ch)
                except (PathAbort, EngineLimit, EngineFault):
                    raise
                except Exception as e:
                    if ctx.witness is None:
                        ctx.witness = w
                    ctx.violation(f"{type(e).__name__} escapes data_received ({proto} protocol, readers {readers})", w)
                    return
                got = []
                while not q.empty():
                    v = q.get_nowait()
                    got.append(v if isinstance(v, (SBytes, bytes)) or v is None else v.payload)
            finally:
                asyncio.set_event_loop(None)
                loop.close()
            if ctx.witness is None:
                ctx.witness, ctx.obs = w, got
                ctx.nontrivial()
            if len(got) != len(expect):
                ctx.violation(f"{proto} {readers} {kind} cuts={cuts}: {len(got)} items on the queue, {len(expect)} expected", w)
                return
            conds = [z3.BoolVal(g is None and e is None) if (g is None or e is None) else HC.seq_eq(g, e) for g, e in zip(got, expect)]
            if not ctx.check(z3.And(conds) if conds else True, f"{proto} {readers} {kind} cuts={cuts}: queue == payloads of the clean messages", w):
                return
    return path


def noise_between_path(proto, readers, kind, k):
    """message 1 + k free octets + message 2 + message 3, the noise delivered as a chunk of its own (and glued to its neighbours);
    oracle: what a fresh reader of the selected kind returns for the same chunks"""
    def path(eng, ctx):
        import han.meter_connection as MC
        warnings.simplefilter("ignore")
        noise = [sym_octet(f"n{i}") for i in range(k)]
        if kind == "hdlc":
            m1 = [0x7E] + ref.build_frame([0x03], [0x21], 0x13, [0xE6, 0x01]) + [0x7E]
            m2 = [0x7E] + ref.build_frame([0x03], [0x21], 0x13, [0xE6, 0x02]) + [0x7E]
            m3 = [0x7E] + ref.build_frame([0x02, 0x23], [0x21], 0x32, [0x0F, 0x40]) + [0x7E]
            sel = "hdlc"
        else:
            m1 = ref_p1.build_readout(b"/LGF5E360", [b"1-0:1.8.0(000123*kWh)"])
            m2 = ref_p1.build_readout(b"/ADN9 6534", [b"1-0:1.7.0(00.332*kW)"])
            m3 = ref_p1.build_readout(b"/LGF5E360", [b"1-0:2.7.0(00.000*kW)"], checksum=False)
            sel = "p1"
        if eng.pick(2) == 1:
            # the free octets replace octets INSIDE message 2 (a damaged message between two good ones)
            pos_ = len(m2) // 2
            m2 = m2[:pos_] + noise + m2[pos_ + k:]
            noise = []
        stream = SBytes(m1 + noise + m2 + m3)
        a, b = len(m1), len(m1) + len(noise)
        for cuts in [(a, b), (a,), (b,), (a, b, b + len(m2))]:
            cuts = tuple(sorted(set(c for c in cuts if 0 < c < len(stream))))
            chunks = HC.split(stream, cuts)
            w = {"sub": "real", "proto": proto, "readers": list(readers), "chunks": chunks}
            ctx.intend(w)
            refr = make_reader(sel)
            exp = []
            for ch in chunks:
                for m in refr.read(ch):
                    if proto == "message":
                        exp.append(m.payload)
                    elif bool(m.is_valid) and m.payload is not None and len(m.payload) > 0:
                        exp.append(m.payload)
            w["expect"] = exp
            loop = asyncio.new_event_loop()
            asyncio.set_event_loop(loop)
            try:
                q = asyncio.Queue()
                p = (MC.SmartMeterMessagePayloadProtocol if proto == "payload" else MC.SmartMeterMessageProtocol)(q, [make_reader(r) for r in readers])
                try:
                    for ch in chunks:
                        p.data_received(ch)
                except (PathAbort, EngineLimit, EngineFault):
                    raise
                except Exception as e:
                    if ctx.witness is None:
                        ctx.witness = w
                    ctx.violation(f"{type(e).__name__} escapes data_received ({proto} protocol, readers {readers})", w)
                    return
                got = []
                while not q.empty():
                    v = q.get_nowait()
                    got.append(v if isinstance(v, (SBytes, bytes)) or v is None else v.payload)
            finally:
                asyncio.set_event_loop(None)
                loop.close()
            if ctx.witness is None:
                ctx.witness, ctx.obs = w, got
                ctx.nontrivial()
            if len(got) != len(exp):
                ctx.violation(f"{proto} {readers} {kind} noise cuts={cuts}: {len(got)} items on the queue, the selected reader reports {len(exp)}", w)
                return
            conds = [z3.BoolVal(g is None and e is None) if (g is None or e is None) else HC.seq_eq(g, e) for g, e in zip(got, exp)]
            if not ctx.check(z3.And(conds) if conds else True, f"{proto} {readers} {kind} noise cuts={cuts}: queue == messages of a reference reader fed the same chunks", w):
                return
    return path


def scenarios(tier):
    q = tier == "quick"
    A = ["lemma scenarios: candidate readers are stubs (free message count per call, free is_valid, free payload kind)"] + inject.assumptions(("mc",))
    out = []
    for proto in ("payload", "message"):
        for r, c, m in ([(2, 2, 2)] if q else [(2, 2, 3), (3, 2, 2), (2, 3, 2)] if proto == "message" else [(2, 2, 2), (3, 2, 1), (2, 3, 1), (1, 2, 3)]):
            out.append(Scenario(f"lemma {proto} protocol: {r} stub readers x {c} calls x <= {m} messages", lemma_path(proto, r, c, m),
                                bounds={"readers": r, "calls": c, "messages_per_call": f"0..{m}", "per message": "is_valid free, payload None|empty|non-empty free"}, domains=("mc",), frontier=6, assumptions=A,
                                replay_cap=150, must_reach=("assert", "selected", "none-selected")))
    AR = inject.assumptions(("hdlc", "p1", "mc"))
    for proto in ("payload", "message"):
        for readers, kind in ((("hdlc",), "hdlc"), (("p1",), "p1"), (("hdlc", "p1"), "hdlc"), (("p1", "hdlc"), "hdlc"), (("hdlc", "p1"), "p1"), (("p1", "hdlc"), "p1"), (("hdlc11", "p1"), "hdlc")):
            if q and proto == "message" and len(readers) == 1:
                continue
            out.append(Scenario(f"real readers {list(readers)}, clean {kind} stream, {proto} protocol", real_path(proto, readers, kind),
                                bounds={"stream": "3 spec frames (one header-only, one free payload octet)" if kind == "hdlc" else "3 spec readouts (one free digit)", "candidates": list(readers), "splittings": "one call, cuts inside messages, cuts exactly between messages, a chunk holding only the CR LF before a message boundary"},
                                domains=("hdlc", "p1", "mc"), frontier=4, workers=4, assumptions=AR, replay_cap=40))
    for proto in ("payload", "message"):
        for readers, kind in ((("p1",), "p1"), (("hdlc", "p1"), "p1"), (("hdlc",), "hdlc"), (("p1", "hdlc"), "hdlc")):
            if q and proto == "message" and len(readers) == 2:
                continue
            k = 2 if q else 3
            out.append(Scenario(f"real readers {list(readers)}, {kind} messages with {k} free octets between them, {proto} protocol", noise_between_path(proto, readers, kind, k),
                                bounds={"stream": f"message + {k} free octets + 2 messages", "splittings": "noise as a chunk of its own / glued to either neighbour", "oracle": "a fresh reader of the selected kind fed the same chunks"},
                                domains=("hdlc", "p1", "mc"), frontier=4, workers=4, assumptions=AR, replay_cap=40))
    return out


def main():
    tier = runner.tier_from_argv()
    return runner.run_check(PROP, "model_checking", scenarios(tier), tier,
                            technique="symbolic execution of the real data_received/message_received with stub readers whose outputs are free (z3 Booleans/ints), compared with a reference selection function per path; plus the real readers on spec-built clean streams",
                            outside=["more than 2 messages per call per reader and more than 2/3 calls in the lemma", "corrupted streams with the real readers (covered through the lemma + C01/C04)"])


if __name__ == "__main__":
    sys.exit(main())
