"""C17 — ConnectionManager: one connection at a time, close() really stops it, bounded pending tasks.
Every path is one ordering class of events (decided by the solver on symbolic latencies, lifetimes and the instant of close());
the assertions hold for every timing in the class. Each path's model is replayed on the real asyncio scheduler with a fake clock."""
import sys
import z3
from symx import core, runner, inject
from symx.runner import Scenario
from checks import mc_common as M
from spec import c17_trace as CT

PROP = "C17"


def same(eng):
    def f(a, b):
        c = (a == b)
        if isinstance(c, bool):
            return c
        return eng.valid(c)[0]
    return f


def path_with_close(K, T_max, D_max, max_loss):
    def path(eng, ctx):
        r = M.run_manager(eng, K, T_max=T_max, D_max=D_max, max_loss=max_loss)
        w = M.witness(r, K)
        ctx.witness, ctx.obs = w, M.obs_of(r["trace"])
        ctx.nontrivial()
        if r["loop"].errors:
            ctx.violation(f"exception in a callback/task: {r['loop'].errors[0].get('message')} {r['loop'].errors[0].get('exception')!r}", w)
            return
        closed = any(e[0] == "close" for e in r["trace"])
        ctx.reach("closed" if closed else "cut-before-close")
        res = CT.analyse_c17(r["trace"], r["quiescent"], same(eng), sum(1 for t in r["transports"] if t.closed), len(r["transports"]))
        if res:
            ctx.violation(f"{res[0][0]}: {res[0][1]}", w)
        else:
            ctx.check(True, "trace assertions", w)
    return path


def path_close_after_handle(K, S_max, max_loss):
    """close() lands right after the S-th handle the loop runs (S = 1..S_max): between any two callbacks, timers or task steps"""
    def path(eng, ctx):
        r = M.run_manager(eng, K, T_max=None, max_loss=max_loss, S_max=S_max)
        w = M.witness(r, K)
        ctx.witness, ctx.obs = w, M.obs_of(r["trace"])
        ctx.nontrivial()
        if r["loop"].errors:
            ctx.violation(f"exception in a callback/task: {r['loop'].errors[0].get('message')} {r['loop'].errors[0].get('exception')!r}", w)
            return
        closed = any(e[0] == "close" for e in r["trace"])
        ctx.reach("closed" if closed else "cut-before-close")
        res = CT.analyse_c17(r["trace"], r["quiescent"], same(eng), sum(1 for t in r["transports"] if t.closed), len(r["transports"]))
        if res:
            ctx.violation(f"{res[0][0]}: {res[0][1]}", w)
        else:
            ctx.check(True, "trace assertions", w)
    return path


def path_no_close(K, max_loss):
    def path(eng, ctx):
        r = M.run_manager(eng, K, T_max=None, max_loss=max_loss)
        w = M.witness(r, K)
        ctx.witness, ctx.obs = w, M.obs_of(r["trace"])
        ctx.nontrivial()
        if r["loop"].errors:
            ctx.violation(f"exception in a callback/task: {r['loop'].errors[0].get('message')} {r['loop'].errors[0].get('exception')!r}", w)
            return
        res = CT.analyse_c17(r["trace"], r["quiescent"], same(eng), sum(1 for t in r["transports"] if t.closed), len(r["transports"]))
        if res:
            ctx.violation(f"{res[0][0]}: {res[0][1]}", w)
        else:
            ctx.check(True, "trace assertions (no close): one connection at a time, keeps reconnecting, pending tasks do not grow", w)
    return path


def scenarios(tier):
    q = tier == "quick"
    A = inject.assumptions(("mc",)) + ["event loop = symx.vloop.VLoop (virtual time, mirrors BaseEventLoop._run_once, FIFO on equal deadlines); Task/Future/Event/wait/sleep/Queue are the real asyncio classes",
                                       "connection factory / transport are scripted fakes; datetime.utcnow in han.meter_connection = virtual clock"]
    K, losses = (4, 2) if q else (6, 3)
    return [Scenario(f"close() anywhere: <= {K} attempts, <= {losses} loss(es)", path_with_close(K, 2 * (10 if q else 16), 4 if q else 6, losses),
                     bounds={"attempts": K, "losses": losses, "latency_s": "0..2", "lifetime_s": "0..2", "close_instant": f"any half-second in 0..{10 if q else 16} s, then 0..{4 if q else 6} further loop iterations at that instant",
                             "outcomes": "succeed/fail per attempt, free"}, domains=("mc",), frontier=5, assumptions=A, replay_cap=120, must_reach=("assert", "closed")),
            Scenario(f"close() right after the S-th handle of the run: <= {K - 1} attempts, <= 1 loss", path_close_after_handle(K - 1, 60 if q else 110, 1),
                     bounds={"attempts": K - 1, "losses": 1, "close_position": f"after handle 1..{60 if q else 110} (every callback/timer/task step boundary)", "latency_s": "0..2", "lifetime_s": "0..2"},
                     domains=("mc",), frontier=4, assumptions=A, replay_cap=150, must_reach=("assert", "closed")),
            Scenario(f"never closed: <= {K + 1} attempts, <= {losses + 1} losses", path_no_close(K + 1, losses + 1),
                     bounds={"attempts": K + 1, "losses": losses + 1, "latency_s": "0..2", "lifetime_s": "0..2"}, domains=("mc",), frontier=5, assumptions=A, replay_cap=120)]


def main():
    tier = runner.tier_from_argv()
    return runner.run_check(PROP, "model_checking", scenarios(tier), tier,
                            technique="symbolic execution of the real connect_loop/close/_try_connect on a virtual-time event loop whose deadlines are z3 terms: one path per event-ordering class, trace assertions per path; replay on the real asyncio scheduler",
                            outside=["more attempts/losses than stated", "latencies/lifetimes above 2 s", "thousands of reconnect cycles (replaced by per-cycle non-growth of pending tasks)", "the real selector/wall clock", "serial/tcp connection factories (I/O)"])


if __name__ == "__main__":
    sys.exit(main())
