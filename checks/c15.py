"""C15 — AutoDecoder returns a dictionary or None for every input, and terminates.
Each of the seven real decoders is run symbolically on genuine messages with a FREE window of consecutive octets at every offset (all
256^w values at once), on every truncation, and on short free binary / ASCII strings. A decoder raising anything but
ConstructError/ValueError, or not finishing, is the violation; the witness is replayed through AutoDecoder with that decoder tried first."""
import sys, signal, traceback
import z3, construct
from symx import core, runner, inject
from symx.core import SBool, PathAbort, EngineLimit, EngineFault
from symx.runner import Scenario
from symx.ints import SInt, sym_octet
from symx.seq import SBytes
from checks import decoders as D
from spec import cosem_ref as CR, ref_p1

PROP = "C15"
ENGINE_EXC = (PathAbort, EngineLimit, EngineFault) + core.HARNESS_SIDE
STEP_SECONDS = 12


class DecoderTimeout(Exception):
    pass


def site_of(e):
    site = "?"
    for fr in traceback.extract_tb(e.__traceback__):
        if "/han/" in fr.filename or fr.filename.startswith("<symx rewrite"):
            site = fr.name
    return site


def run_all_decoders(eng, ctx, data, label):
    """data: SBytes. Every decoder of the table, each as if it were the remembered one."""
    import han.autodecoder as AD
    table = list(AD.AutoDecoder.payload_decoder_functions)
    obs = []
    for idx, (name, dec) in enumerate(table):
        w = {"data": data, "prev": idx, "via": "payload", "seconds": 5}
        ctx.intend(w)
        if ctx.witness is None:
            ctx.witness = w

        def on_alarm(signum, frame):
            raise DecoderTimeout()
        old = signal.signal(signal.SIGALRM, on_alarm)
        signal.setitimer(signal.ITIMER_REAL, STEP_SECONDS)
        try:
            r = dec(data)
            obs.append("dict" if isinstance(r, dict) else type(r).__name__)
            ok = isinstance(r, dict)
            if not ok:
                ctx.violation(f"{label}: {name} returned {type(r).__name__}", w)
                return False
        except ENGINE_EXC:
            raise
        except (construct.ConstructError, ValueError):
            obs.append("rejects")
        except DecoderTimeout:
            signal.setitimer(signal.ITIMER_REAL, 0)
            ctx.violation(f"{label}: {name} did not finish within {STEP_SECONDS} s", w, relaxed=True)
            return False
        except Exception as e:
            signal.setitimer(signal.ITIMER_REAL, 0)
            ctx.violation(f"{type(e).__name__}@{site_of(e)}: {label}: escapes {name}", w)
            return False
        finally:
            signal.setitimer(signal.ITIMER_REAL, 0)
            signal.signal(signal.SIGALRM, old)
            eng._arm()
    ctx.witness = {"data": data, "prev": 0, "via": "payload", "seconds": 5, "all": True}
    ctx.obs = obs
    ctx.nontrivial()
    ctx.check(True, f"{label}: every decoder returns a dict or raises ConstructError/ValueError", None)
    return True


def pool(tier):
    q = tier == "quick"
    msgs = []
    names = {"aidon": ["no_list_1"] if q else ["no_list_1", "no_list_2", "se_list"], "kaifa": ["no_list_1", "se_list"] if q else ["no_list_1", "no_list_2", "no_list_3", "se_list"],
             "kamstrup": ["no_list_1_single_phase_real_sample"] if q else ["no_list_1_single_phase_real_sample", "no_list_2_single_phase", "se_list_real_sample"]}
    for meter, ns in names.items():
        for n in ns:
            o = D.fixture(meter, n)
            if len(o) > 120:
                # long lists: the first elements only (list count adjusted by the walker-based re-cut), frame form
                pos = CR.split_frame(o)[1]
                root = CR.walk(o, pos, greedy=(meter == "kamstrup"))
                kids = D.children_octets(o, root)[:7]
                o = D.rebuild(o, pos, kids, 0x02, count=(o[pos + 1] if meter == "kamstrup" else None))
                msgs.append((f"{meter} {n} frame (first 7 items)", o))
                continue
            msgs.append((f"{meter} {n} frame", o))
            msgs.append((f"{meter} {n} body", o[CR.split_frame(o)[1]:]))
    msgs.append(("p1 block", list(b"1-0:1.8.0(00006678.394*kWh)\r\n0-0:1.0.0(210217184019W)\r\n1-0:32.7.0(233.9*V)\r\n0-0:96.1.0(4699)\r\n")))
    return msgs


def window_path(label, msg, width, lo, hi):
    def path(eng, ctx):
        p = lo + eng.pick(hi - lo)
        o = list(msg)
        for j in range(width):
            if p + j < len(o):
                o[p + j] = sym_octet(f"x{j}", "int")
        run_all_decoders(eng, ctx, SBytes(o), f"{label} window@{p}")
    return path


def truncation_path(label, msg):
    def path(eng, ctx):
        t = eng.pick(len(msg))
        run_all_decoders(eng, ctx, SBytes(list(msg[:t])), f"{label} truncated@{t}")
    return path


def recut_path(k):
    """a well-formed positional list with k items (lengths altered): items of Kaifa list 3 cut or repeated, count octet = k"""
    def path(eng, ctx):
        o = D.fixture("kaifa", "no_list_3")
        pos = CR.split_frame(o)[1]
        kids = D.children_octets(o, CR.walk(o, pos))
        items = [kids[i % len(kids)] for i in range(k)]
        frame = D.rebuild(o, pos, items, 0x02)
        form = eng.pick(2)
        data = frame if form == 0 else frame[pos:]
        run_all_decoders(eng, ctx, SBytes(list(data)), f"kaifa list with {k} items ({'frame' if form == 0 else 'body'})")
    return path


ALTERNATIVES = [("u32", [0x06], 4), ("u16", [0x12], 2), ("i16", [0x10], 2), ("i8", [0x0F], 1), ("enum", [0x16], 1), ("null", [0x00], 0), ("visible(3)", [0x0A, 0x03], 3),
                ("octets(3)", [0x09, 0x03], 3), ("octets(12)", [0x09, 0x0C], 12), ("octets(6)", [0x09, 0x06], 6), ("struct(1){u16}", [0x02, 0x01, 0x12], 2), ("visible(0)", [0x0A, 0x00], 0)]      # at most 2 value octets of a replacement are free (3 for the date-time), the rest concrete


def type_swap_path(label, meter, msg, alternatives=None):
    """type tags swapped / lengths altered: every leaf of the list, in turn, is replaced by an item of every other A-XDR type whose
    value octets are free; the list stays well-formed otherwise (frame and bare body)"""
    pos = CR.split_frame(msg)[1]
    root = CR.walk(msg, pos, greedy=(meter == "kamstrup"))
    leaves = []

    def visit(n):
        if n.kind in ("array", "struct"):
            for k in n.children:
                visit(k)
        else:
            leaves.append(n)
    visit(root)

    def path(eng, ctx):
        lf = leaves[eng.pick(len(leaves))]
        alts = alternatives or ALTERNATIVES
        name, head, nfree = alts[eng.pick(len(alts))]
        if name == "octets(12)":
            body = [0x07, 0xE4, 0x01, 0x19, 0x06, 0x0D, 0x09, 0x1E, 0xFF, 0x80, 0x00, 0x00]          # a date-time; month, hour and deviation octets free
            for j, pos_ in enumerate((2, 5, 9)):
                body[pos_] = sym_octet(f"v{j}", "int")
            repl = list(head) + body
        else:
            repl = list(head) + [sym_octet(f"v{i}", "int") for i in range(min(nfree, 2))] + [0x41] * max(0, nfree - 2)
        o = list(msg[:lf.start]) + repl + list(msg[lf.end:])
        form = eng.pick(2)
        data = o if form == 0 else o[pos:]
        run_all_decoders(eng, ctx, SBytes(data), f"{label}: item at {lf.start} ({lf.kind}) replaced by {name} ({'frame' if form == 0 else 'body'})")
    return path, len(leaves)


def free_clock_path(label, meter, msg):
    """all 12 octets of one date-time (APDU header or list element) unconstrained: unspecified components, impossible dates,
    out-of-range deviations, first and last representable days"""
    def spans_of(o):
        clk, pos = CR.split_frame(o)
        out = [clk] if clk else []
        root = CR.walk(o, pos, greedy=(meter == "kamstrup"))

        def visit(node, parent, idx):
            if node.kind in ("array", "struct"):
                for i, k in enumerate(node.children):
                    visit(k, node, i)
            elif node.kind == "octets" and node.end - node.vstart == 12 and D._is_clock_slot(meter, parent, idx, o):
                out.append((node.vstart, node.end))
        visit(root, None, 0)
        return out
    spans = spans_of(msg)

    def path(eng, ctx):
        a, b = spans[eng.pick(len(spans))]
        o = list(msg)
        o[a:b] = [sym_octet(f"t{i}", "int") for i in range(12)]
        run_all_decoders(eng, ctx, SBytes(o), f"{label}: date-time at {a} with 12 free octets")
    return path, len(spans)


def free_binary_path(n):
    def path(eng, ctx):
        k = 1 + eng.pick(n)
        run_all_decoders(eng, ctx, SBytes([sym_octet(f"b{i}", "int") for i in range(k)]), f"free binary n={k}")
    return path


P1_ALPHA = "( ) * . : - digit letter CR LF"


def free_ascii_path(n):
    def path(eng, ctx):
        k = 1 + eng.pick(n)
        cs = []
        for i in range(k):
            v = sym_octet(f"c{i}", "int")
            t = v.t
            eng.add(z3.Or(t == 40, t == 41, t == 42, t == 46, t == 58, t == 45, z3.And(t >= 48, t <= 57), z3.And(t >= 97, t <= 122), z3.And(t >= 65, t <= 90), t == 13, t == 10))
            cs.append(v)
        run_all_decoders(eng, ctx, SBytes(cs), f"free ascii n={k}")
    return path


def loop_lemma_path(via):
    """the AutoDecoder loop itself: stub decoders that accept or raise ConstructError / ValueError by free choice, any remembered
    decoder: no exception may escape and the result is a dict or None (complements the per-decoder scenarios)"""
    def path(eng, ctx):
        import han.autodecoder as AD, han.dlde as dlde, han.common as common, han.hdlc as hdlc
        from checks.c12 import run_entry
        from symx.ints import concretize
        orig, orig_p1 = list(AD.AutoDecoder.payload_decoder_functions), dlde.decode_p1_readout
        names = [n for n, _ in orig]
        acc = [SBool(z3.Bool(f"acc{i}")) for i in range(len(names))]
        kind = [SBool(z3.Bool(f"verr{i}")) for i in range(len(names))]

        def mk(i):
            def dec(payload):
                if acc[i]:
                    return {"decoder": i}
                raise (ValueError("no") if kind[i] else construct.ConstructError("no"))
            return dec
        try:
            AD.AutoDecoder.payload_decoder_functions = [(names[i], mk(i)) for i in range(len(names))]
            if "P1" in names:
                dlde.decode_p1_readout = mk(names.index("P1"))
            d = AD.AutoDecoder()
            pv = z3.Int("prev")
            eng.add(z3.And(pv >= -1, pv <= len(names) - 1))
            prev = concretize(SInt(pv))
            d._AutoDecoder__previous_success = None if prev < 0 else prev
            w = {"sub": "lemma", "prev": prev, "acc": acc, "verr": kind, "via": via}
            ctx.witness = w
            ctx.nontrivial()
            try:
                r = run_entry(d, via, common, hdlc, dlde)
            except ENGINE_EXC:
                raise
            except Exception as e:
                ctx.violation(f"{via}: {type(e).__name__} escapes AutoDecoder although every decoder only raises ConstructError/ValueError (prev={prev})", w)
                return
            ctx.obs = [r, d.previous_success_decoder]
            ctx.check(z3.BoolVal(r is None or isinstance(r, dict)), f"{via}: dict or None", w)
        finally:
            AD.AutoDecoder.payload_decoder_functions = orig
            dlde.decode_p1_readout = orig_p1
    return path


def scaling_path():
    """running time must stay polynomial: P1 lines with n value groups whose last parenthesis is cut off (n = 4 .. 40), one free character"""
    def path(eng, ctx):
        n = (4, 8, 16, 24, 32, 40, 600)[eng.pick(7)]
        if eng.pick(2) == 0:
            line = list(b"1-0:99.97.0(%d)(0-0:96.7.19)" % n)
            for i in range(n):
                line += list(b"(%012dW)(%010d*s)" % (101208152415 + i, 240 + i))
            line = line[:-1]                                 # one data set with many values, final ')' missing
        else:
            line = list(b"1.8(1)" * (2 * n))                 # many data sets on one line
        c = sym_octet("x", "int")
        eng.add(z3.Or(c.t == 40, c.t == 41, c.t == 42, z3.And(c.t >= 48, c.t <= 57)))
        line[len(line) // 2] = c
        run_all_decoders(eng, ctx, SBytes(line + [13, 10]), f"P1 line with {2 * n + 2} value groups, unbalanced")
    return path


def scenarios(tier):
    q = tier == "quick"
    A = inject.assumptions(("decoders", "p1"))
    out = [Scenario(f"AutoDecoder loop with stub decoders (accept | ConstructError | ValueError free per decoder, any remembered decoder), via {via}", loop_lemma_path(via),
                    bounds={"accept/raise": "free per decoder", "remembered": "None | 0..6", "entry": via}, domains=("mc",), frontier=5, assumptions=["stub decoders (this scenario only)"], replay_cap=100)
           for via in ("payload", "dlms", "readout")]
    out.append(Scenario("running time: P1 lines with 10..1202 value groups and a missing final parenthesis, one free character", scaling_path(),
                        bounds={"value_groups": "10 ... 1202 values in one data set (last parenthesis missing) | 8 ... 1200 data sets on one line", "free": "one character among ( ) * digit"}, domains=("decoders", "p1"), frontier=2, assumptions=A, replay_cap=20,
                        engine_opts={"path_time_limit": 200}))
    for label, msg in pool(tier):
        n = len(msg)
        out.append(Scenario(f"{label}: free window of 1 octet at every offset", window_path(label, msg, 1, 0, n),
                            bounds={"message_octets": n, "window": 1, "offsets": f"0..{n - 1}", "decoders": "all seven, each as the remembered one"}, domains=("decoders", "p1"), frontier=1, assumptions=A, replay_cap=30,
                            engine_opts={"path_time_limit": 120}, path_budget=8))
        if not q and n <= 10:
            hdr = min(n, 4)
            out.append(Scenario(f"{label}: free window of 2 octets over the first {hdr} offsets", window_path(label, msg, 2, 0, hdr), bounds={"window": 2, "offsets": f"0..{hdr - 1}"},
                                domains=("decoders", "p1"), frontier=1, assumptions=A, replay_cap=30, engine_opts={"path_time_limit": 120}, path_budget=8))
        out.append(Scenario(f"{label}: every truncation", truncation_path(label, msg), bounds={"truncations": f"0..{n - 1}"}, domains=("decoders", "p1"), frontier=1, assumptions=A, replay_cap=30,
                            engine_opts={"path_time_limit": 120}))
    swaps = [("aidon", "no_list_1"), ("kaifa", "no_list_2"), ("kamstrup", "no_list_2_single_phase")] if q else \
        [("aidon", n) for n in ("no_list_1", "no_list_2", "no_list_3", "se_list")] + [("kaifa", n) for n in ("no_list_1", "no_list_2", "no_list_3", "se_list")] + \
        [("kamstrup", n) for n in ("no_list_1_three_phase", "no_list_2_single_phase")]
    for meter, n in swaps:
        quick_alts = [a for a in ALTERNATIVES if a[0] in ("null", "visible(3)", "octets(12)", "u16", "i8")]
        pth, nl = type_swap_path(f"{meter} {n}", meter, D.fixture(meter, n), quick_alts if (q and meter != "aidon") or meter == "kamstrup" else None)
        out.append(Scenario(f"{meter} {n}: every item replaced in turn by an item of every other type (free value octets)", pth,
                            bounds={"items": nl, "replacement_types": [a[0] for a in ALTERNATIVES], "forms": "frame and body"}, domains=("decoders", "p1"), frontier=2, assumptions=A, replay_cap=40,
                            engine_opts={"path_time_limit": 120}, path_budget=8))
    for meter, n in ([("aidon", "no_list_3"), ("kamstrup", "no_list_2_single_phase")] if q else [("aidon", "no_list_3"), ("aidon", "se_list"), ("kaifa", "no_list_3"), ("kaifa", "se_list"), ("kamstrup", "no_list_2_single_phase"), ("kamstrup", "no_list_1_three_phase")]):
        pth, ns = free_clock_path(f"{meter} {n}", meter, D.fixture(meter, n))
        if ns:
            out.append(Scenario(f"{meter} {n}: each date-time with all 12 octets free (unconstrained)", pth, bounds={"date_times": ns, "free": "12 octets, no validity constraint"},
                                domains=("decoders", "p1"), frontier=3, assumptions=A, replay_cap=60, engine_opts={"path_time_limit": 120}))
    for k in (range(0, 21) if not q else (0, 2, 3, 9, 10, 13, 14, 17, 18, 19)):
        out.append(Scenario(f"kaifa positional list re-cut to {k} items (count octet consistent), frame and body", recut_path(k), bounds={"items": k, "source": "Kaifa list 3 (18 items) cut / repeated"},
                            domains=("decoders", "p1"), frontier=1, workers=1, assumptions=A, replay_cap=10, engine_opts={"path_time_limit": 120}))
    out.append(Scenario(f"free ASCII strings of 1..{3} characters over ({P1_ALPHA})", free_ascii_path(3), bounds={"alphabet": P1_ALPHA, "length": f"1..{3}"},
                        domains=("decoders", "p1"), frontier=4, assumptions=A, replay_cap=60, engine_opts={"path_time_limit": 120}))
    out.append(Scenario(f"free binary strings of 1..{2} octets", free_binary_path(2), bounds={"length": f"1..{2}", "alphabet": "0..255"},
                        domains=("decoders", "p1"), frontier=4, assumptions=A, replay_cap=60, engine_opts={"path_time_limit": 120}))
    return out


def main():
    tier = runner.tier_from_argv()
    return runner.run_check(PROP, "model_checking", scenarios(tier), tier,
                            technique="symbolic execution of all seven real decoders (construct grammars + normalisation + P1 text parser) on genuine messages with free octet windows, truncations and short free strings; escaping exception / non-termination on a feasible path = violation (z3 feasibility + concrete replay through AutoDecoder)",
                            assumptions=["termination is checked with a wall-clock guard per decoder call (12 s symbolic, 5 s in the concrete replay)"],
                            outside=["windows wider than stated", "free strings longer than stated", "memory bound (only running time is guarded)"])


if __name__ == "__main__":
    sys.exit(main())
