"""C07 — Aidon lists decode to the transmitted register values, scaled exactly (NO lists 1-3, one/three phase, SE list, and
sub-lists / re-ordered lists of known OBIS elements); every register (full range of its type), scaler (-3..3), text and clock free."""
import sys, itertools
from symx import runner, inject
from symx.runner import Scenario
from checks import decoders as D
from spec import cosem_ref as CR

PROP = "C07"


def layouts(tier):
    out = []
    for name in ("no_list_1", "no_list_2", "no_list_3", "se_list"):
        out.append((name, D.fixture("aidon", name)))
    for name in ("no_list_2", "no_list_3"):
        o = D.fixture("aidon", name)
        out.append((name + " single phase", D.drop_phases(o, CR.split_frame(o)[1], "aidon")))
    # the APDU header may carry a date-time (tagged or untagged) instead of null-data: frame and bare body must still agree
    from checks.c10 import with_apdu_clock
    for name in ("no_list_1", "no_list_3"):
        for tagged in (True, False):
            out.append((f"{name} with {'a tagged' if tagged else 'an untagged'} APDU date-time", with_apdu_clock(D.fixture("aidon", name), tagged)))
    return out


def n_scalers(octets):
    root = CR.walk(octets, CR.split_frame(octets)[1])
    return sum(1 for el in root.children if len(el.children) == 3)


def path_for(label, octets, scaler_range=(-3, 3)):
    def path(eng, ctx):
        j = eng.pick(max(1, n_scalers(octets)))
        o = D.make_holes(eng, octets, "aidon", "frame", free_clocks=False, free_scaler=j, scaler_range=scaler_range)
        D.decode_and_compare(eng, ctx, "aidon", o, "frame", label)
    return path


def sublist_path(octets, max_len):
    """any ordered selection of <= max_len elements of the list (harness-level enumeration), all holes free"""
    def path(eng, ctx):
        pos = CR.split_frame(octets)[1]
        n = len(CR.walk(octets, pos).children)
        k = 1 + eng.pick(max_len)
        keep = []
        for _ in range(k):
            keep.append(eng.pick(n))
        if len(set(keep)) != len(keep):
            raise D.PathAbort()
        o = D.aidon_variant(octets, pos, keep)
        o = D.make_holes(eng, o, "aidon", "frame", free_clocks=False, free_scaler=eng.pick(k))
        D.decode_and_compare(eng, ctx, "aidon", o, "frame", f"sub-list {keep}", both_forms=False)
    return path


def scenarios(tier):
    q = tier == "quick"
    A = inject.assumptions(("decoders",))
    out = []
    for label, o in layouts(tier):
        n = len(CR.walk(o, CR.split_frame(o)[1]).children)
        out.append(Scenario(f"aidon {label}: all registers, scalers and texts free", path_for(label, o),
                            bounds={"layout": label, "elements": n, "free": "every octet of every register at once (u32, i16, u16: full range incl. sign), every text character (printable ASCII); the scaler octet of ONE element at a time free in -3..3 (each element in turn), the others as captured",
                                    "forms": "frame and bare body"}, domains=("decoders",), engine_opts={"slicing": True}, frontier=4, assumptions=A, replay_cap=60))
    W = 16 if q else 40
    o1 = D.fixture("aidon", "no_list_1")
    out.append(Scenario(f"aidon no_list_1: the scaler over -{W}..{W} ('any scaler': tables, caches and shortcuts for the common exponents)", path_for("no_list_1 wide scaler", o1, (-W, W)),
                        bounds={"layout": "no_list_1", "free": f"the register (u32) and the scaler in -{W}..{W}"}, domains=("decoders",), engine_opts={"slicing": True}, frontier=4, assumptions=A, replay_cap=60))
    base = D.fixture("aidon", "no_list_3" if not q else "no_list_2")
    out.append(Scenario(f"aidon sub-lists: every ordered selection of <= {2 if q else 3} elements of {'list 3' if not q else 'list 2'}", sublist_path(base, 2 if q else 3),
                        bounds={"selection": f"ordered, distinct, <= {2 if q else 3} elements", "free": "all holes"}, domains=("decoders",), engine_opts={"slicing": True}, frontier=3, assumptions=A, replay_cap=60))
    return out


def main():
    tier = runner.tier_from_argv()
    return runner.run_check(PROP, "model_checking", scenarios(tier), tier,
                            technique="symbolic execution of the real construct grammar + normalisation on documented lists whose value octets are all z3 variables; exact Decimal scaling compared with register*10^scaler per path",
                            assumptions=["float(Decimal) is correctly rounded (uninterpreted rn() with its error axiom); sat answers are replayed with real floats"],
                            outside=["scalers outside -3..3", "sub-lists of more than 3 elements other than the documented lists", "non-ASCII text"])


if __name__ == "__main__":
    sys.exit(main())
