"""C01 — HDLC: a frame is reported valid exactly when it is intact, with exact fields; frames are contiguous, disjoint, in order.

Harness A (frame object): L free octets appended to a real HdlcFrame; is_valid <=> (length field == L and bit-serial RFC 1662 FCS of
the first L-2 octets == last two, low first); accessors of valid frames equal the octets located by an independent address parser.
Harness B (reader): free streams, structured streams, spec-built frames with one free corruption / truncation / insertion; per
returned frame the same assertions plus contiguity between flags, disjointness and order."""
import sys
import z3
from symx import core, runner, inject
from symx.core import SBool, bterm
from symx.runner import Scenario
from symx.seq import SBytes
from symx.ints import SInt, sym_octet
from checks import hdlc_common as HC
from spec import ref

PROP = "C01"


def t(x):
    return x.t if isinstance(x, SBool) else z3.BoolVal(bool(x))


def spec_intact(o):
    """symbolic frame_is_intact over a list of (possibly symbolic) octets"""
    L = len(o)
    if L < 2:
        return False
    lenf = ((o[0] << 8) | o[1]) & 0x7FF
    f = HC.sym_fcs(o[:L - 2])
    return (lenf == L) & ((f & 0xFF) == o[L - 2]) & ((f >> 8) == o[L - 1])


def sym_addr_end(o, pos):
    q = pos
    while q < len(o):
        if bool((o[q] & 1) == 1):
            return q + 1
        q += 1
    return None


def eqv(a, b):
    """z3 Bool: a == b for ints / SInt / None"""
    if a is None or b is None:
        return z3.BoolVal(a is None and b is None)
    r = (a == b)
    return t(r)


def frame_assertions(ctx, fr, o, what, witness):
    """o: list of the frame's octets (terms). Returns True when everything was proved."""
    got = fr.is_valid
    spec = spec_intact(o)
    ok = ctx.check_iff(got, spec if isinstance(spec, SBool) else SBool(z3.BoolVal(bool(spec))), f"{what}: is_valid <=> intact", witness)
    if not ok:
        return False
    if not bool(got):               # cached decision: no new fork
        return True
    ctx.reach("valid-frame")
    L = len(o)
    d_end = sym_addr_end(o, 2)
    s_end = sym_addr_end(o, d_end) if d_end is not None else None
    if s_end is None or s_end + 3 > L:
        ctx.reach("valid-but-no-room-for-header")       # length and FCS fine but the address fields run to the end: no "corresponding octets" to compare
        return True
    h = fr.header
    conds = [HC.seq_eq(h.destination_address, SBytes(o[2:d_end])), HC.seq_eq(h.source_address, SBytes(o[d_end:s_end])),
             eqv(h.control, o[s_end]), eqv(h.header_check_sequence, (o[s_end + 1] << 8) | o[s_end + 2]),
             eqv(fr.frame_check_sequence, (o[L - 2] << 8) | o[L - 1]), eqv(h.frame_length, L)]
    pl = fr.payload
    conds.append(z3.BoolVal(pl is None) if L == s_end + 3 else HC.seq_eq(pl, SBytes(o[s_end + 3:L - 2])))
    return ctx.check(z3.And(conds), f"{what}: accessors of a valid frame", witness)


# ------------------------------------------------------------------------------------------------ harness A
def obj_path(lmax, lmin=0):
    def path(eng, ctx):
        import han.hdlc as H
        L = lmin + eng.pick(lmax - lmin + 1)
        o = [sym_octet(f"o{i}") for i in range(L)]
        fr = H.HdlcFrame()
        for x in o:
            fr.append(x)
        w = {"sub": "obj", "octets": SBytes(o)}
        ctx.witness = w
        ctx.obs = [fr.is_good_ffc, fr.is_expected_length, fr.payload]
        if L >= 7:
            ctx.nontrivial()
        frame_assertions(ctx, fr, o, f"HdlcFrame L={L}", w)
    return path


def big_obj_path(L, free_at):
    """frame of L octets: concrete well-formed frame, `free_at` positions replaced by free octets"""
    def path(eng, ctx):
        import han.hdlc as H
        base = ref.build_frame([0x02, 0x04, 0x06, 0x03], [0x08, 0x0A, 0x21], 0x13, [(0x31 * i + 7) & 0xFF for i in range(L - 14)])
        assert len(base) == L
        o = list(base)
        for k, p in enumerate(free_at):
            o[p if p >= 0 else L + p] = sym_octet(f"x{k}")
        fr = H.HdlcFrame()
        for x in o:
            fr.append(x)
        w = {"sub": "obj", "octets": SBytes(o)}
        ctx.witness = w
        ctx.obs = [fr.is_good_ffc, fr.is_expected_length, fr.payload]
        ctx.nontrivial()
        frame_assertions(ctx, fr, o, f"HdlcFrame L={L} free at {free_at}", w)
    return path


# ------------------------------------------------------------------------------------------------ harness B
def contiguity(eng, ctx, cfg, stream, frames, what, witness):
    """frames: list of (frame, octets). Each frame is term-equal to the (un-stuffed) content of a flag-delimited piece of the stream,
    pieces in increasing order and disjoint."""
    s = list(stream)
    flags = [i for i, x in enumerate(s) if (x == 0x7E if isinstance(x, int) else bool(x == 0x7E))]
    if cfg[0]:
        segs = []
        for a, b in zip(flags, flags[1:]):
            if b > a + 1:
                seg, out, esc = s[a + 1:b], [], False
                for x in seg:
                    if esc:
                        out.append(x ^ 0x20); esc = False
                    elif (x == 0x7D if isinstance(x, int) else bool(x == 0x7D)):
                        esc = True
                    else:
                        out.append(x)
                segs.append(out)
        k = 0
        for fr, o in frames:
            while k < len(segs) and not (len(segs[k]) == len(o) and eng.valid(SBytes(o).seq_eq(SBytes(segs[k])))[0]):
                k += 1
            if k >= len(segs):
                return ctx.check(False, f"{what}: frame is not the un-stuffed content of a later flag-delimited segment", witness)
            k += 1
        return ctx.check(True, f"{what}: contiguity (stuffing)", witness)
    pos = 1
    for fr, o in frames:
        n, found = len(o), None
        for i in range(pos, len(s) - n):
            if (i - 1) in flags and (i + n) in flags and n > 0 and eng.valid(SBytes(o).seq_eq(SBytes(s[i:i + n])))[0]:
                found = i
                break
        if found is None:
            return ctx.check(False, f"{what}: frame not found between two flags after offset {pos}", witness)
        pos = found + n + 1
    return ctx.check(True, f"{what}: contiguity", witness)


def reader_assertions(eng, ctx, cfg, stream, cutsets, label):
    first = True
    for cuts in cutsets:
        chunks = HC.split(stream, cuts)
        w = {"kind": "hdlc", "cfg": list(cfg), "chunks": chunks}
        ctx.intend(w)
        _, frames = HC.read_chunks(cfg, chunks)
        if first:
            ctx.witness, ctx.obs, first = w, HC.sig(frames), False
            if frames:
                ctx.nontrivial()
        pairs = [(f, list(f.as_bytes)) for f in frames]
        for k, (f, o) in enumerate(pairs):
            if not frame_assertions(ctx, f, o, f"{label} cuts={cuts} frame#{k}", w):
                return
        contiguity(eng, ctx, cfg, stream, pairs, f"{label} cuts={cuts}", w)


def single_cuts(n, extra_bytewise=True):
    cs = [()] + [(c,) for c in range(1, n)]
    if extra_bytewise and n > 2:
        cs.append(tuple(range(1, n)))
    return cs


def free_stream_path(cfg, n):
    def path(eng, ctx):
        stream = SBytes([sym_octet(f"b{i}") for i in range(n)])
        reader_assertions(eng, ctx, cfg, stream, [(), (n // 2,), tuple(range(1, n))], "free stream")
    return path


def structured_path(cfg, h, n):
    def path(eng, ctx):
        hdr = HC.free_octets("h", h, exclude=(0x7E, 0x7D))
        body = [sym_octet(f"b{i}") for i in range(n)]
        stream = SBytes([0x7E] + hdr + body + [0x7E])
        reader_assertions(eng, ctx, cfg, stream, single_cuts(len(stream)), "structured")
    return path


FRAMES = [
    ref.build_frame([0x03], [0x21], 0x13, [0x7D, 0x41, 0x7E]),                 # payload with escape and flag octets
    ref.build_frame([0x02, 0x23], [0x21], 0x10, []),                           # header-only, 2-octet destination
    ref.build_frame([0x02, 0x04, 0x06, 0x23], [0x08, 0x21], 0x32, [0x00]),     # 4+2-octet addresses
    ref.build_frame([0x01], [0x01], 0x00, [0xE6, 0xE7]),
]


def damaged_path(cfg, two_frames):
    """7E F' 7E [F2 7E]: F a concrete well-formed frame with ONE free damage: an octet replaced by a free one (any position),
    a truncation (any position, also right after the header check sequence), or a free octet inserted (any position)."""
    def path(eng, ctx):
        base = FRAMES[eng.pick(len(FRAMES))]
        kind = eng.pick(3)
        n = len(base)
        if kind == 0:
            p = eng.pick(n)
            body = list(base); body[p] = sym_octet("x")
            label = f"replace@{p}"
        elif kind == 1:
            p = eng.pick(n)
            body = list(base[:p])
            label = f"truncate@{p}"
        else:
            p = eng.pick(n + 1)
            body = list(base[:p]) + [sym_octet("x")] + list(base[p:])
            label = f"insert@{p}"
        wire = HC.sym_stuff(body) if cfg[0] else body
        s = [0x7E] + wire + [0x7E]
        if two_frames:
            f2 = FRAMES[3]
            s += (ref.stuff(f2) if cfg[0] else f2) + [0x7E]
        stream = SBytes(s)
        reader_assertions(eng, ctx, cfg, stream, single_cuts(len(stream), extra_bytewise=False), f"damaged({label})")
    return path


def junk_between_flags_path(cfg, k):
    """7E + j free octets (j = 1..k: lone escapes, short junk) + 7E + spec frame + 7E (+ spec frame + 7E)"""
    def path(eng, ctx):
        j = 1 + eng.pick(k)
        junk = [sym_octet(f"j{i}") for i in range(j)]
        f1, f2 = FRAMES[eng.pick(len(FRAMES))], FRAMES[3]
        w1, w2 = (ref.stuff(f1), ref.stuff(f2)) if cfg[0] else (f1, f2)
        stream = SBytes([0x7E] + junk + [0x7E] + w1 + [0x7E] + w2 + [0x7E])
        n = len(stream)
        reader_assertions(eng, ctx, cfg, stream, [(), (j + 1,), (j + 2,), (j + 3,), tuple(range(1, n))], f"junk({j}) between flags before a clean frame")
    return path


def scenarios(tier):
    q = tier == "quick"
    A = inject.assumptions(("hdlc",))
    out = [Scenario(f"frame object, all octets free, L<={16 if q else 28}", obj_path(16 if q else 28),
                    bounds={"frame_octets": f"0..{16 if q else 28}, every octet free", "address_shapes": "all (low bits free)"}, domains=("hdlc",), frontier=3, assumptions=A,
                    must_reach=("assert", "iff:true", "iff:false", "valid-frame"))]
    if not q:
        for L, free_at in ((64, (0, 1, 5, 9, 20, 40, -2, -1)), (2045, (0, 1, 9, 1000, 2037, -2)), (2046, (1, 9, 1000, -1)), (2047, (0, 1, 3, 9, 1000, 2040, -2, -1))):
            out.append(Scenario(f"frame object L={L}, free octets at {free_at}", big_obj_path(L, free_at), bounds={"frame_octets": L, "free_positions": list(free_at)},
                                domains=("hdlc",), frontier=3, workers=4, assumptions=A, must_reach=("assert", "iff:true", "iff:false", "valid-frame")))
    for cfg in HC.CONFIGS:
        n = (7 if cfg[0] else 8) if q else (9 if cfg[0] else 10)
        out.append(Scenario(f"reader, free stream n={n} {HC.cfg_name(cfg)}", free_stream_path(cfg, n),
                            bounds={"free_octets": n, "splittings": "one call, one middle cut, byte-at-a-time", "configuration": HC.cfg_name(cfg)}, domains=("hdlc",), frontier=6, assumptions=A))
        for h, nf in ([(7, 3)] if q else [(5, 4), (7, 4), (8, 4)]):
            out.append(Scenario(f"reader, 7E+{h}hdr+{nf}free+7E {HC.cfg_name(cfg)}", structured_path(cfg, h, nf),
                                bounds={"header_like_octets": h, "free_octets": nf, "splittings": "every single cut + byte-at-a-time", "configuration": HC.cfg_name(cfg)},
                                domains=("hdlc",), frontier=6, assumptions=A, must_reach=("assert", "iff:true", "iff:false")))
        out.append(Scenario(f"reader, 7E + 1..{2 if q else 3} free octets + 7E + clean frames {HC.cfg_name(cfg)}", junk_between_flags_path(cfg, 2 if q else 3),
                            bounds={"junk_octets": f"1..{2 if q else 3} free (lone escape, short frames)", "followed_by": "2 concrete spec frames", "splittings": "one call, cuts around the junk, byte-at-a-time", "configuration": HC.cfg_name(cfg)},
                            domains=("hdlc",), frontier=4, assumptions=A, must_reach=("assert", "iff:true")))
        for two in ((False,) if q else (False, True)):
            out.append(Scenario(f"reader, damaged spec frame{' + following frame' if two else ''} {HC.cfg_name(cfg)}", damaged_path(cfg, two),
                                bounds={"frames": "4 spec-built frames (escape/flag payload, header-only, 4+2-octet addresses, minimal)", "damage": "one free replacement at any position | truncation at any position | one free octet inserted at any position",
                                        "splittings": "every single cut", "configuration": HC.cfg_name(cfg)}, domains=("hdlc",), frontier=4, assumptions=A,
                                must_reach=("assert", "iff:true", "iff:false", "valid-frame")))
    return out


def main():
    tier = runner.tier_from_argv()
    return runner.run_check(PROP, "model_checking", scenarios(tier), tier,
                            technique="path-wise symbolic execution of the real HdlcFrame/HdlcFrameReader on z3 terms; is_valid compared with the bit-serial RFC 1662 FCS and the length field per path "
                                      "(XOR-system equivalence by Gauss-Jordan store + z3)",
                            outside=["accessors of valid frames whose extended address fields leave no room for control+HCS (no corresponding octets exist; is_valid itself is still checked)", "more than one damage per frame", "more than two frames per stream", "cuts other than those listed per scenario", "frame objects longer than the stated L with all octets free"])


if __name__ == "__main__":
    sys.exit(main())
