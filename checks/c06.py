"""C06 — HDLC reader output does not depend on how the byte stream is chunked.

Two (or more) readers are run on the SAME free stream split differently; equality of every observable of every returned
frame is asked of the solver under each path condition. Streams: n fully free octets from the initial state; structured
streams 7E + h free header-like octets + n free + 7E (so that frames complete and escapes/aborts matter); over-long frames."""
import sys, itertools
import z3
from symx import core, runner, inject
from symx.runner import Scenario
from symx.seq import SBytes
from symx.ints import sym_octet
from checks import hdlc_common as HC

PROP = "C06"


def compare_all(eng, ctx, cfg, stream, pairs=False, bytewise=True):
    n = len(stream)
    ctx.intend({"kind": "hdlc", "cfg": list(cfg), "chunks": [stream], "chunks2": [stream[:n // 2], stream[n // 2:]]},
               alts=lambda: ({"kind": "hdlc", "cfg": list(cfg), "chunks": [stream], "chunks2": HC.split(stream, c)} for c in [(k,) for k in range(1, n)] + ([tuple(range(1, n))] if n > 2 else [])))
    _, fa = HC.read_chunks(cfg, [stream])
    a = HC.sig(fa)
    ctx.witness = {"kind": "hdlc", "cfg": list(cfg), "chunks": [stream], "chunks2": [stream[:n // 2], stream[n // 2:]]}
    ctx.obs = a
    if fa:
        ctx.nontrivial()
    cutsets = [(c,) for c in range(0, n + 1)]
    if pairs:
        cutsets += list(itertools.combinations(range(1, n), 2))
    if bytewise and n > 2:
        cutsets.append(tuple(range(1, n)))
    for cuts in cutsets:
        chunks = HC.split(stream, cuts)
        _, fb = HC.read_chunks(cfg, chunks)
        ctx.check(HC.sig_eq(a, HC.sig(fb)), f"cuts={cuts if len(cuts) < 4 else 'bytewise'}",
                  witness={"kind": "hdlc", "cfg": list(cfg), "chunks": [stream], "chunks2": chunks})


def free_path(cfg, n, pairs):
    def path(eng, ctx):
        stream = SBytes([sym_octet(f"b{i}") for i in range(n)])
        compare_all(eng, ctx, cfg, stream, pairs=pairs)
    return path


def structured_path(cfg, h, n, pairs):
    def path(eng, ctx):
        hdr = HC.free_octets("h", h, exclude=(0x7E, 0x7D))
        body = [sym_octet(f"b{i}") for i in range(n)]
        stream = SBytes([0x7E] + hdr + body + [0x7E])
        compare_all(eng, ctx, cfg, stream, pairs=pairs)
    return path


GOOD = [0xA0, 0x0B, 0x03, 0x21, 0x13]


def junk_then_good_path(cfg, j, pairs):
    """7E + j free octets + 7E [+ 7E] + a spec frame + 7E + a spec frame + 7E: a discarded frame right before good ones, cut anywhere"""
    def path(eng, ctx):
        from spec import ref
        junk = [sym_octet(f"j{i}") for i in range(j)]
        f1 = ref.build_frame([0x03], [0x21], 0x13, [0xE6, 0xE7, 0x00])
        f2 = ref.build_frame([0x02, 0x23], [0x21], 0x10, [0x41])
        w1, w2 = (ref.stuff(f1), ref.stuff(f2)) if cfg[0] else (f1, f2)
        dbl = eng.pick(2)
        stream = SBytes([0x7E] + junk + [0x7E] * (1 + dbl) + w1 + [0x7E] + w2 + [0x7E])
        compare_all(eng, ctx, cfg, stream, pairs=pairs)
    return path


def twin_path(cfg, n):
    """object isolation: a second reader of the same class is fed other data in between the calls of the first; the first one's
    output must not change (state shared between reader objects would show here)"""
    def path(eng, ctx):
        from spec import ref
        hdr = HC.free_octets("h", 5, exclude=(0x7E, 0x7D))
        body = [sym_octet(f"b{i}") for i in range(n)]
        stream = SBytes([0x7E] + hdr + body + [0x7E])
        other = SBytes([0x7E] + ref.build_frame([0x03], [0x21], 0x13, [0x7D, 0x5E, 0x41]) + [0x7D, 0x7E, 0x01, 0x7D])
        m = len(stream)
        _, fa = HC.read_chunks(cfg, [stream])
        a = HC.sig(fa)
        ctx.witness = {"kind": "hdlc", "cfg": list(cfg), "chunks": [stream], "chunks2": [stream[:m // 2], stream[m // 2:]]}
        ctx.obs = a
        ctx.nontrivial()
        for cut in range(1, m):
            r1, r2 = HC.reader(cfg), HC.reader(cfg)
            out = []
            out += r1.read(stream[:cut])
            r2.read(other[:len(other) // 2])
            r2.read(other[len(other) // 2:])
            out += r1.read(stream[cut:])
            ctx.check(HC.sig_eq(a, HC.sig(out)), f"another reader fed between the two calls, cut={cut}",
                      witness={"kind": "hdlc", "cfg": list(cfg), "chunks": [stream], "chunks2": [stream[:cut], stream[cut:]], "twin": [other[:len(other) // 2], other[len(other) // 2:]]})
    return path


def overlong_path(cfg, fill, nfree):
    """7E + header announcing 2047 + `fill` concrete non-flag octets + nfree free octets + 7E; cuts at the last positions"""
    def path(eng, ctx):
        hdr = [0xA7, 0xFF, 0x03, 0x21, 0x13]
        body = [(0x11 + 7 * i) % 0x7D for i in range(fill)]
        free = [sym_octet(f"b{i}") for i in range(nfree)]
        stream = SBytes([0x7E] + hdr + body + free + [0x7E, 0x7E])
        n = len(stream)
        _, fa = HC.read_chunks(cfg, [stream])
        a = HC.sig(fa)
        ctx.witness = {"kind": "hdlc", "cfg": list(cfg), "chunks": [stream], "chunks2": [stream[:n - 3], stream[n - 3:]]}
        ctx.obs = a
        ctx.nontrivial()
        for cut in range(n - 10, n + 1):
            chunks = HC.split(stream, (cut,))
            _, fb = HC.read_chunks(cfg, chunks)
            ctx.check(HC.sig_eq(a, HC.sig(fb)), f"over-long cut={cut}", witness={"kind": "hdlc", "cfg": list(cfg), "chunks": [stream], "chunks2": chunks})
    return path


def scenarios(tier):
    q = tier == "quick"
    out = []
    A = inject.assumptions(("hdlc",))
    for cfg in HC.CONFIGS:
        nfree = (8 if cfg[0] else 9) if q else (10 if cfg[0] else 11)
        out.append(Scenario(f"free stream n={nfree} {HC.cfg_name(cfg)}", free_path(cfg, nfree, pairs=not q and nfree <= 8),
                            bounds={"free_octets": nfree, "alphabet": "0..255 each", "splittings": "one call vs every single cut vs byte-at-a-time", "configuration": HC.cfg_name(cfg)},
                            domains=("hdlc",), frontier=6, assumptions=A))
    for cfg in HC.CONFIGS:
        hs = [(7, 3)] if q else [(h, 5 if h >= 6 else 3) for h in range(0, 9)]
        for h, n in hs:
            out.append(Scenario(f"structured 7E+{h}hdr+{n}free+7E {HC.cfg_name(cfg)}", structured_path(cfg, h, n, pairs=not q and h + n <= 8),
                                bounds={"header_like_octets": h, "free_octets": n, "header-like": "free except 7E/7D", "splittings": "every single cut + byte-at-a-time" + (" + all cut pairs" if not q and h + n <= 8 else ""),
                                        "configuration": HC.cfg_name(cfg)}, domains=("hdlc",), frontier=6, assumptions=A))
    for cfg in HC.CONFIGS:
        for j in ((2,) if q else (1, 2, 3)):
            out.append(Scenario(f"7E + {j} free + 7E(7E) + two spec frames {HC.cfg_name(cfg)}", junk_then_good_path(cfg, j, pairs=True),
                                bounds={"junk_octets": j, "then": "two concrete spec frames, shared or double flag", "splittings": "every single cut, every cut pair, byte-at-a-time", "configuration": HC.cfg_name(cfg)},
                                domains=("hdlc",), frontier=4, assumptions=A, replay_cap=40))
        out.append(Scenario(f"a second reader fed in between: 7E+5hdr+{2 if q else 3}free+7E {HC.cfg_name(cfg)}", twin_path(cfg, 2 if q else 3),
                            bounds={"free_octets": 2 if q else 3, "interleaving": "other reader object reads a frame, an escape-terminated frame and a pending escape between the two calls", "configuration": HC.cfg_name(cfg)},
                            domains=("hdlc",), frontier=5, assumptions=A, replay_cap=40))
    if not q:
        for cfg in HC.CONFIGS:
            for fill in (2036, 2038, 2040):
                out.append(Scenario(f"over-long frame fill={fill}+4free {HC.cfg_name(cfg)}", overlong_path(cfg, fill, 4),
                                    bounds={"concrete_fill": fill, "free_octets": 4, "cuts": "each of the last 10 positions"}, domains=("hdlc",), frontier=4, assumptions=A, replay_cap=40))
    return out


def main():
    tier = runner.tier_from_argv()
    return runner.run_check(PROP, "model_checking", scenarios(tier), tier,
                            technique="path-wise symbolic execution of the real HdlcFrameReader on z3 terms; output equality of two chunkings decided by the solver per path (z3, GF(2)-affine normal form for the FCS)",
                            outside=["fully free streams longer than the stated n", "three or more cuts other than byte-at-a-time (pairs only in the thorough tier for n<=8)",
                                     "stream lengths and cut positions are enumerated, not solved for"])


if __name__ == "__main__":
    sys.exit(main())
