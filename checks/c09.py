"""C09 — Kamstrup lists decode to the transmitted values with the documented scaling: currents /100 (/1000 for CT meters, type number
starting with 685), energies x10, others unchanged; null-data padding anywhere; APDU clock for frames."""
import sys
from symx import runner, inject
from symx.runner import Scenario
from checks import decoders as D
from spec import cosem_ref as CR

PROP = "C09"
NAMES = ("no_list_1_three_phase", "no_list_2_single_phase", "no_list_2_three_phase", "no_list_1_single_phase_real_sample", "no_list_2_single_phase_real_sample", "se_list_real_sample")


def ct_variant(octets, ct):
    """concrete copy of a list whose meter type number starts with 685 (CT meter) or 684"""
    o = list(octets)
    pos = CR.split_frame(o)[1]
    root = CR.walk(o, pos, greedy=True)
    items = [k for k in root.children if k.kind != "null"]
    for ob, v in zip(items[1::2], items[2::2]):
        if CR.cde(o[ob.vstart:ob.end]) == "96.1.1":
            o[v.vstart:v.vstart + 3] = list(b"685" if ct else b"684")
    return o


def without_type(octets):
    """the same list without its meter-type element (element count adjusted): OBIS-tagged elements are optional one by one"""
    o = list(octets)
    pos = CR.split_frame(o)[1]
    root = CR.walk(o, pos, greedy=True)
    items = [k for k in root.children if k.kind != "null"]
    groups = [[items[0]]] + [[a, b] for a, b in zip(items[1::2], items[2::2])]
    keep = [g for g in groups if not (len(g) == 2 and CR.cde(o[g[0].vstart:g[0].end]) == "96.1.1")]
    out = list(o[:pos]) + [0x02, sum(len(g) for g in keep)]
    for g in keep:
        for k in g:
            out += list(o[k.start:k.end])
    return out


def path_for(label, octets, ct, pads, history=False, no_type=False):
    def path(eng, ctx):
        o = list(octets)
        before = [ct_variant(octets, not ct), ct_variant(octets, ct), ct_variant(octets, not ct)] if history else ()
        if no_type:
            # a list that does not say what meter it comes from is scaled as a direct meter, whatever was decoded before it
            o, before = without_type(octets), [ct_variant(octets, True)]
        if pads:
            o = D.kamstrup_pad(o, CR.split_frame(o)[1], pads)
        o = D.make_holes(eng, o, "kamstrup", "frame", free_clocks=True, ct=ct)
        D.decode_and_compare(eng, ctx, "kamstrup", o, "frame", label, before=before)
    return path


def scenarios(tier):
    q = tier == "quick"
    A = inject.assumptions(("decoders",))
    out = []
    for name in NAMES:
        o = D.fixture("kamstrup", name)
        for ct in (False, True):
            for pads in ([None, (1, 0, 2)] if q else [None, (1, 0, 2), (2, 2, 2, 0, 1), (0, 0, 4)]):
                if q and pads and name not in ("no_list_2_three_phase", "se_list_real_sample"):
                    continue
                out.append(Scenario(f"kamstrup {name} ct={ct} padding={pads}: all registers and texts free", path_for(name, o, ct, pads),
                                    bounds={"layout": name, "meter_type": "free digits/letters, first three " + ("== 685 (CT meter)" if ct else "!= 685"), "null_padding_after_elements": pads or "as captured",
                                            "free": "every octet of every register, every text character, every date-time (APDU clock and list clock independently)"}, domains=("decoders",), engine_opts={"slicing": True}, frontier=3, workers=4, assumptions=A, replay_cap=40))
    for name in (("no_list_2_three_phase",) if q else NAMES):
        o = D.fixture("kamstrup", name)
        for ct in (False, True):
            out.append(Scenario(f"kamstrup {name} ct={ct} after lists of the other meter kind were decoded in the same process", path_for(name, o, ct, None, history=True),
                                bounds={"layout": name, "history": "a list of the opposite kind (CT / direct), one of the same kind, one of the opposite kind decoded first", "free": "as above"},
                                domains=("decoders",), engine_opts={"slicing": True}, frontier=3, workers=4, assumptions=A, replay_cap=40))
    o = D.fixture("kamstrup", "no_list_2_three_phase")
    out.append(Scenario("kamstrup no_list_2_three_phase without its meter-type element, after a CT (685) list was decoded in the same process", path_for("no_list_2_three_phase", o, False, None, no_type=True),
                        bounds={"layout": "no_list_2_three_phase minus the meter-type element", "history": "the full list with a 685 type number decoded first", "free": "as above"},
                        domains=("decoders",), engine_opts={"slicing": True}, frontier=3, workers=4, assumptions=A, replay_cap=40))
    return out


def main():
    tier = runner.tier_from_argv()
    return runner.run_check(PROP, "model_checking", scenarios(tier), tier,
                            technique="symbolic execution of the real construct grammar + normalisation on documented lists whose value octets are all z3 variables; decoded dictionary compared with the reference per path (floats in the relative-error model, replayed with real floats)",
                            assumptions=["'equal to register/100' is read to within 2 ulp (register * 10**-2 is one rounding away from register/100); the statement's quantity, not its last bit"],
                            outside=["layouts other than the captured Kamstrup lists and their padded variants", "non-ASCII text"])


if __name__ == "__main__":
    sys.exit(main())
