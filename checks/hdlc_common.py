"""Shared pieces of the HDLC harnesses (C01, C02, C06, C14, C16, C19)."""
import z3
from symx import core
from symx.core import SBool, bterm, PathAbort
from symx.ints import SInt, LInt, sym_octet, ite
from symx.seq import SBytes
from spec import ref

CONFIGS = [(False, False), (False, True), (True, False), (True, True)]


def cfg_name(cfg):
    return f"stuffing={'on' if cfg[0] else 'off'},abort={'on' if cfg[1] else 'off'}"


def reader(cfg):
    import han.hdlc as H
    return H.HdlcFrameReader(cfg[0], cfg[1])


def read_chunks(cfg, chunks):
    r = reader(cfg)
    out = []
    for ch in chunks:
        out += r.read(ch)
    return r, out


def read_chunks_twin(cfg, chunks, twin):
    """reader 1 gets `chunks`; after its first call a second reader object of the same configuration reads `twin`
    (same schedule as spec.concrete.hdlc_run_twin)"""
    r1, r2 = reader(cfg), reader(cfg)
    out = []
    for k, ch in enumerate(chunks):
        out += r1.read(ch)
        if k == 0:
            for t in twin:
                r2.read(t)
    return r1, out


def sig(frames):
    """observables of returned frames: [as_bytes, is_good_ffc, is_expected_length, payload] (same shape as concrete.hdlc_obs)"""
    return [[f.as_bytes, f.is_good_ffc, f.is_expected_length, f.payload] for f in frames]


def seq_eq(a, b):
    if a is None or b is None:
        return z3.BoolVal(a is None and b is None)
    if not isinstance(a, SBytes):
        a = SBytes(list(a))
    return a.seq_eq(b)


def sig_eq(a, b):
    if len(a) != len(b):
        return z3.BoolVal(False)
    cs = []
    for (ab, ag, ae, ap), (bb, bg, be, bp) in zip(a, b):
        cs += [seq_eq(ab, bb), bterm(ag) == bterm(bg), bterm(ae) == bterm(be), seq_eq(ap, bp)]
    return z3.And(cs) if cs else z3.BoolVal(True)


def free_octets(prefix, n, exclude=()):
    out = [sym_octet(f"{prefix}{i}") for i in range(n)]
    for o in out:
        for x in exclude:
            core.ENG.assume(o != x)
    return out


def split(stream, cuts):
    """chunks of SBytes `stream` at the given cut offsets"""
    pts = [0] + list(cuts) + [len(stream)]
    return [stream[a:b] for a, b in zip(pts, pts[1:])]


def sym_fcs(octets):
    return ref.fcs16(octets, ite)


def sym_stuff(octs):
    """octet stuffing of possibly symbolic octets (forks on free octets being 7E/7D)"""
    out = []
    for o in octs:
        if isinstance(o, SInt):
            if bool((o == 0x7E) | (o == 0x7D)):
                out += [0x7D, o ^ 0x20]
            else:
                out.append(o)
        elif o in (0x7E, 0x7D):
            out += [0x7D, o ^ 0x20]
        else:
            out.append(o)
    return out


def build_frame(dst, src, control, payload, fmt_type=0xA, seg=0, o0=None):
    """spec-built well-formed frame over possibly symbolic fields; check sequences are terms over the free octets.
    o0: optional free first octet (format type + S bit free, its length bits constrained)."""
    n = 2 + len(dst) + len(src) + 1 + 2 + (len(payload) + 2 if payload else 0)
    first = (fmt_type << 4) | (seg << 3) | (n >> 8)
    if o0 is not None:
        core.ENG.assume((o0 & 7) == (n >> 8))
        first = o0
    hdr = [first, n & 0xFF] + list(dst) + list(src) + [control]
    h = sym_fcs(hdr)
    body = hdr + [h & 0xFF, h >> 8]
    if payload:
        body = body + list(payload)
        f = sym_fcs(body)
        body = body + [f & 0xFF, f >> 8]
    return body


def free_address(prefix, n):
    out = []
    for i in range(n):
        a = sym_octet(f"{prefix}{i}")
        core.ENG.assume((a & 1) == (1 if i == n - 1 else 0))
        out.append(a)
    return out
