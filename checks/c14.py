"""C14 — readers and messages never raise on line noise. Every exception escaping read(), a message accessor or data_received()
on a symbolic path is a violation (witness = the path's model, replayed on the pristine code)."""
import sys, traceback, asyncio, warnings
import z3
from symx import core, runner, inject
from symx.core import SBool, PathAbort, EngineLimit, EngineFault
from symx.runner import Scenario
from symx.seq import SBytes
from symx.ints import SInt, sym_octet
from checks import hdlc_common as HC, p1_common as PC
from spec import ref, ref_p1

PROP = "C14"
ENGINE_EXC = (PathAbort, EngineLimit, EngineFault) + core.HARNESS_SIDE


def make_reader(name):
    import han.hdlc as H, han.dlde as D
    if name == "p1":
        return D.ModeDReader()
    cfg = {"hdlc": (False, False), "hdlc00": (False, False), "hdlc01": (False, True), "hdlc10": (True, False), "hdlc11": (True, True)}[name]
    return H.HdlcFrameReader(*cfg)


def touch(m):
    out = [m.is_valid, m.payload, m.as_bytes, m.message_type.name]
    hd = getattr(m, "header", None)
    if hd is not None:
        out += [hd.frame_length, hd.destination_address, hd.source_address, hd.control, hd.header_check_sequence, m.frame_check_sequence]
    return out


def site_of(e):
    site = "?"
    for fr in traceback.extract_tb(e.__traceback__):
        if "/han/" in fr.filename or fr.filename.startswith("<symx rewrite"):
            site = fr.name
    return site


def run_reader(ctx, name, stream, cutsets, label, expect=None):
    for cuts in cutsets:
        chunks = HC.split(stream, cuts)
        w = {"mode": "reader", "reader": name, "chunks": chunks}
        if expect:
            w["expect"] = [SBytes(e) for e in expect]
        ctx.intend(w, alts=lambda: (dict(w, chunks=HC.split(stream, c)) for c in cutsets))
        if ctx.witness is None:
            ctx.witness = w
        try:
            r = make_reader(name)
            obs = []
            for ch in chunks:
                for m in r.read(ch):
                    obs.append(touch(m))
            if ctx.witness is w:
                ctx.obs = obs
            if obs:
                ctx.nontrivial()
            ctx.check(True, f"{label} cuts={cuts}", w)
        except ENGINE_EXC:
            raise
        except Exception as e:
            if ctx.witness is w:
                ctx.obs = None
                ctx.witness = None
            ctx.violation(f"{type(e).__name__}@{site_of(e)}: {label}", w)
            return False
    return True


def run_proto(ctx, mode, readers, stream, cutsets, label):
    import han.meter_connection as MC
    warnings.simplefilter("ignore")
    loop = asyncio.new_event_loop()
    asyncio.set_event_loop(loop)
    try:
        for cuts in cutsets:
            chunks = HC.split(stream, cuts)
            w = {"mode": mode, "readers": list(readers), "chunks": chunks}
            if ctx.witness is None:
                ctx.witness = w
            try:
                q = asyncio.Queue()
                cls = MC.SmartMeterMessagePayloadProtocol if mode == "payload" else MC.SmartMeterMessageProtocol
                p = cls(q, [make_reader(n) for n in readers])
                for ch in chunks:
                    p.data_received(ch)
                out = []
                while not q.empty():
                    x = q.get_nowait()
                    out.append(x if isinstance(x, (SBytes, bytes)) else x.as_bytes)
                if ctx.witness is w:
                    ctx.obs = out
                ctx.nontrivial()
                ctx.check(True, f"{label} cuts={cuts}", w)
            except ENGINE_EXC:
                raise
            except Exception as e:
                if ctx.witness is w:
                    ctx.obs = None
                    ctx.witness = None
                ctx.violation(f"{type(e).__name__}@{site_of(e)}: {label}", w)
                return False
    finally:
        asyncio.set_event_loop(None)
        loop.close()
    return True


def cuts_for(n, all_single=True):
    cs = [()]
    if all_single:
        cs += [(c,) for c in range(1, n)]
    return cs


def hdlc_free(cfgname, n):
    def path(eng, ctx):
        stream = SBytes([sym_octet(f"b{i}") for i in range(n)])
        run_reader(ctx, cfgname, stream, cuts_for(n), f"hdlc {cfgname} free n={n}")
    return path


def hdlc_structured(cfgname, h, n):
    def path(eng, ctx):
        hdr = HC.free_octets("h", h, exclude=(0x7E, 0x7D))
        stream = SBytes([0x7E] + hdr + [sym_octet(f"b{i}") for i in range(n)] + [0x7E])
        run_reader(ctx, cfgname, stream, cuts_for(len(stream)), f"hdlc {cfgname} structured")
    return path


def hdlc_overflow_path(cfgname, k):
    """an open frame that does not end at its announced length (2047 | 16 | 2046), up to the length limit: 7E + valid header + concrete filler so
    that the frame holds 2047 - k//2 octets, then k free octets (any value: flags, escapes, data), two flags, a small valid frame"""
    def path(eng, ctx):
        from spec import ref
        hdr = [[0xA7, 0xFF], [0xA0, 0x10], [0xA7, 0xFE]][eng.pick(3)] + [0x03, 0x21, 0x13]      # announces 2047 | 16 | 2046 octets
        head = hdr + [ref.fcs16(hdr) & 0xFF, ref.fcs16(hdr) >> 8]
        fill = [0x55] * (2047 - (k // 2) - len(head))
        fr = [sym_octet(f"x{i}") for i in range(k)]
        clean = ref.build_frame([0x03], [0x21], 0x13, [0xE6, 0xE7, 0x00])
        stream = SBytes([0x7E] + head + fill + fr + [0x7E, 0x7E] + clean + [0x7E])
        a = 1 + len(head) + len(fill)
        run_reader(ctx, cfgname, stream, [(), (a,), (a + k,), (a + 1, a + k + 1)], f"hdlc {cfgname}: open frame at the length limit, {k} free octets")
    return path


P1_DATA = list(b"1-0:1.8.0(000123*kWh)\r\n")


def p1_stream(eng, k):
    """the structured noise families of DESIGN §4 C14 (chosen by a harness-level pick)"""
    kind = eng.pick(7)
    fr = [sym_octet(f"x{i}") for i in range(k)]
    if kind == 6:
        a = ref_p1.build_readout(b"/ADN9 6534", [b"1-0:1.7.0(0001.727*kW)"])
        b = ref_p1.build_readout(b"/LGF5E360", [b"1-0:32.7.0(233.9*V)"], checksum=False)
        return list(a) + fr + list(b), "complete readout + free octets + complete readout (noise glued to the next identification line)"
    if kind == 0:
        return fr + [sym_octet("x_extra")], "free octets"
    if kind == 1:
        return [0x2F] + fr + [10], "'/' + free + LF"
    if kind == 2:
        return PC.IDENT + PC.CRLF + fr + [10], "ident line + free + LF"
    if kind == 3:
        return PC.IDENT + PC.CRLF + P1_DATA + [0x21] + fr + [10], "ident + data + '!' + free + LF"
    if kind == 4:
        return list(b"/LGF5") + fr[:2] + [0x21] + fr[2:] + PC.CRLF + P1_DATA + list(b"!\r\n"), "'!' inside the identification line"
    return PC.IDENT + PC.CRLF + fr[:1] + P1_DATA + [0x21] + fr[1:] + PC.CRLF, "free octet in data + free after '!'"


def p1_reader_path(k, suffix):
    def path(eng, ctx):
        s, label = p1_stream(eng, k)
        expect = None
        if suffix:
            clean = [ref_p1.build_readout(b"/ADN9 6534", [b"1-0:1.7.0(0001.727*kW)"]), ref_p1.build_readout(b"/LGF5E360", [b"1-0:32.7.0(233.9*V)"], checksum=False),
                     ref_p1.build_readout(b"/ADN9 6534", [b"1-0:2.7.0(0000.000*kW)"])]
            s = s + [c for r in clean for c in r]
            expect = clean[1:]
        stream = SBytes(s)
        n = len(stream)
        cuts = cuts_for(n) if not suffix else [(), (n // 3,), (len(s) - sum(len(r) for r in clean),)]
        run_reader(ctx, "p1", stream, cuts, f"p1 reader: {label}", expect=expect)
    return path


def p1_overflow_path(n_prefix, k):
    """unfinished readout past the 8191-octet guard (first chunk), then k free octets, a line end and clean readouts in further chunks"""
    def path(eng, ctx):
        if eng.pick(2) == 0:
            prefix = PC.long_unfinished_readout(n_prefix)
        else:           # the readout being collected stalls in a LINE that never ends (no line feed for more than 8191 octets)
            prefix = list(b"/LGF5E360\r\n1-0:32.7.0(233.9*V)\r\n0-0:96.13.0(") + [0x30 + (i % 10) for i in range(n_prefix)]
        fr = [sym_octet(f"x{i}") for i in range(k)]
        clean = [ref_p1.build_readout(b"/ADN9 6534", [b"1-0:1.7.0(0001.727*kW)"]), ref_p1.build_readout(b"/LGF5E360", [b"1-0:32.7.0(233.9*V)"], checksum=False),
                 ref_p1.build_readout(b"/ADN9 6534", [b"1-0:2.7.0(0000.000*kW)"])]
        tail = fr + [13, 10] + [c for r in clean for c in r]
        stream = SBytes(prefix + tail)
        a = len(prefix)
        run_reader(ctx, "p1", stream, [(a,), (a, a + k + 2), (a // 2, a, a + k + 2 + len(clean[0]))], f"p1 reader: unfinished readout of {a} octets, then noise and clean readouts", expect=clean[1:])
    return path


def proto_path(mode, readers, k):
    def path(eng, ctx):
        which = eng.pick(3)
        if which == 2:
            good1 = ref_p1.build_readout(b"/ADN9 6534", [b"1-0:1.7.0(0001.727*kW)"])
            good2 = ref_p1.build_readout(b"/LGF5E360", [b"1-0:32.7.0(233.9*V)"], checksum=False)
            bad = ref_p1.build_readout(b"/ADN9 6534", [b"1-0:2.7.0(0000.000*kW)", b"1-0:32.7.0(231.9*V)"])
            for j, pos_ in enumerate((14, 30, len(bad) - 4)[:k]):
                bad[pos_] = sym_octet(f"x{j}")
            s, label = good1 + bad + good2, "valid readout, readout with free octets in data and checksum, valid readout"
        elif which == 0:
            s, label = p1_stream(eng, k)
        else:
            f = ref.build_frame([0x03], [0x21], 0x13, [0xE6, 0xE7, 0x00, 0x0F])
            for j, pos in enumerate((1, 6, len(f) - 1, 3, 8)[:k]):
                f[pos] = sym_octet(f"b{j}")
            s, label = [0x7E] + f + [0x7E] + ref.build_frame([0x03], [0x21], 0x13, [0x01]) + [0x7E], "hdlc frame with free octets (length, payload, FCS, address) + clean frame"
        stream = SBytes(s)
        n = len(stream)
        run_proto(ctx, mode, readers, stream, [(), (n // 2,), (n - 2,)], f"{mode} protocol {readers}: {label}")
    return path


def scenarios(tier):
    q = tier == "quick"
    A = inject.assumptions(("hdlc", "p1", "mc"))
    out = []
    for name in ("hdlc00", "hdlc01", "hdlc10", "hdlc11"):
        n = 7 if q else 9
        out.append(Scenario(f"hdlc reader {name}: {n} free octets + all accessors", hdlc_free(name, n), bounds={"free_octets": n, "splittings": "every single cut", "accessors": "is_valid payload as_bytes message_type header.* frame_check_sequence"},
                            domains=("hdlc",), frontier=6, assumptions=A, replay_cap=40))
        out.append(Scenario(f"hdlc reader {name}: 7E + 7 header-like + {3 if q else 4} free + 7E", hdlc_structured(name, 7, 3 if q else 4), bounds={"free_octets": 3 if q else 4, "splittings": "every single cut"},
                            domains=("hdlc",), frontier=6, assumptions=A, replay_cap=40))
        ko = 3 if q else 5
        out.append(Scenario(f"hdlc reader {name}: open frame reaching the 2047-octet limit, {ko} free octets around it", hdlc_overflow_path(name, ko),
                            bounds={"frame": "valid header announcing 2047 | 16 | 2046 octets, concrete filler", "free_octets": f"{ko} (frame octets {2047 - ko // 2 + 1}..{2047 - ko // 2 + ko}; any value, flags and escapes included)", "then": "two flags and a small valid frame",
                                    "splittings": "one call, cut before/after the free octets"}, domains=("hdlc",), frontier=4, workers=4, assumptions=A, replay_cap=20))
    k = 3 if q else 4
    out.append(Scenario(f"p1 reader + readout accessors: seven noise families, {k} free octets", p1_reader_path(k, False),
                        bounds={"families": "free | '/'+free+LF | ident+free+LF | ident+data+'!'+free+LF | '!' inside ident line | free in data and after '!' | readout+free+readout", "free_octets": k, "splittings": "every single cut"},
                        domains=("p1",), frontier=6, assumptions=A, replay_cap=60))
    for n in ((8300,) if q else (7900, 8191, 8300, 20000)):
        out.append(Scenario(f"p1 reader: unfinished readout of ~{n} octets (complete lines | one line that never ends) across the buffer guard, then 2 free octets + clean readouts", p1_overflow_path(n, 2),
                            bounds={"prefix_octets": n, "free_octets": 2, "suffix": "3 clean readouts in later chunks; 2nd and 3rd must be delivered, nothing may raise"}, domains=("p1",), frontier=3, workers=4,
                            assumptions=A, replay_cap=20))
    for mode in ("payload", "message"):
        out.append(Scenario(f"{mode} protocol with [HDLC, P1] candidates, {k} free octets", proto_path(mode, ("hdlc", "p1"), k),
                            bounds={"candidates": ["hdlc", "p1"], "free_octets": k, "streams": "the six P1 noise families and a genuine HDLC frame with free octets in length/payload/FCS/address followed by a clean frame", "splittings": "one call, middle cut, late cut"},
                            domains=("hdlc", "p1", "mc"), frontier=6, assumptions=A, replay_cap=60))
    if not q:
        out.append(Scenario(f"p1 reader stays usable: noise families ({k} free) + 3 clean readouts", p1_reader_path(k, True),
                            bounds={"free_octets": k, "suffix": "3 clean readouts; 2nd and 3rd must be delivered"}, domains=("p1",), frontier=6, assumptions=A, replay_cap=60))
        out.append(Scenario("payload protocol with [P1, HDLC] candidates", proto_path("payload", ("p1", "hdlc11"), k), bounds={"candidates": ["p1", "hdlc(stuffing,abort)"], "free_octets": k},
                            domains=("hdlc", "p1", "mc"), frontier=6, assumptions=A, replay_cap=60))
    return out


def main():
    tier = runner.tier_from_argv()
    return runner.run_check(PROP, "model_checking", scenarios(tier), tier,
                            technique="path-wise symbolic execution of the real readers, message accessors and protocol classes on free octets; an exception escaping on any feasible path is the violation (z3 decides feasibility, model replayed)",
                            outside=["more free octets than stated per family", "noise families other than the listed ones"])


if __name__ == "__main__":
    sys.exit(main())
