"""C20 — OBIS codes parse into their value groups and format back losslessly; ==, hash, C.D.E string.
The real to_obis_tupple/Obis methods run with the regex interpreted symbolically (pattern string read from the repository object) and
the f-strings rewritten from source; group digits / group values / malformed characters are solver terms."""
import sys, itertools
import z3
from symx import core, runner, inject
from symx.core import SBool, PathAbort, EngineLimit, EngineFault
from symx.runner import Scenario
from symx.seq import SStr
from symx.ints import SInt, term
from spec import ref

PROP = "C20"
ENGINE_EXC = (PathAbort, EngineLimit, EngineFault) + core.HARNESS_SIDE


def free_group_digits(eng, name, ndig):
    """ndig free decimal digits whose value is <= 255 -> (char codes, value term)"""
    ds = []
    for i in range(ndig):
        v = z3.Int(f"{name}{i}")
        eng.add(z3.And(v >= 0, v <= 9))
        ds.append(SInt(v))
    val = 0
    for d in ds:
        val = val * 10 + d
    eng.assume(val <= 255)
    return [d + 48 for d in ds], val


def eq_groups(got, exp):
    cs = []
    if len(got) != len(exp):
        return z3.BoolVal(False)
    for g, e in zip(got, exp):
        if g is None or e is None:
            cs.append(z3.BoolVal(g is None and e is None))
        else:
            r = (g == e)
            cs.append(r.t if isinstance(r, SBool) else z3.BoolVal(bool(r)))
    return z3.And(cs)


def parse_path(max_digits):
    def path(eng, ctx):
        import han.obis as O
        syntax = eng.pick(2)
        pres = eng.pick(16) if syntax == 0 else 16 + eng.pick(2)
        lens = [1 + eng.pick(max_digits) for _ in range(6)]
        chars, exp = [], []

        def grp(name, k):
            c, v = free_group_digits(eng, name, lens[k])
            return c, v
        if syntax == 0:         # reduced: [A-][B:]C.D[.E][*F]
            pa, pb, pe, pf = [(pres >> i) & 1 for i in range(4)]
            if pa:
                c, v = grp("a", 0); chars += c + [ord("-")]; exp.append(v)
            else:
                exp.append(None)
            if pb:
                c, v = grp("b", 1); chars += c + [ord(":")]; exp.append(v)
            else:
                exp.append(None)
            c, v = grp("c", 2); chars += c + [ord(".")]; exp.append(v)
            c, v = grp("d", 3); chars += c; exp.append(v)
            if pe:
                c, v = grp("e", 4); chars += [ord(".")] + c; exp.append(v)
            else:
                exp.append(None)
            if pf:
                c, v = grp("f", 5); chars += [ord("*")] + c; exp.append(v)
            else:
                exp.append(None)
        else:                   # six-part dotted form, F optional
            with_f = pres - 16
            for k, nm in enumerate("abcde"):
                c, v = grp(nm, k); chars += c + [ord(".")]; exp.append(v)
            if with_f:
                c, v = grp("f", 5); chars += c; exp.append(v)
            else:
                exp.append(None)
        text = SStr(chars)
        w = {"sub": "parse", "text": text, "expect": exp}
        ctx.witness = w
        ctx.nontrivial()
        try:
            got = O.to_obis_tupple(text)
        except ENGINE_EXC:
            raise
        except Exception as e:
            ctx.obs = "ValueError" if isinstance(e, ValueError) else None
            ctx.violation(f"{type(e).__name__} raised for a well-formed code", w)
            return
        ctx.obs = list(got)
        if not ctx.check(eq_groups(got, exp), "to_obis_tupple groups == transmitted groups", w):
            return
        o = O.Obis.from_string(text)
        ctx.check(eq_groups((o.a, o.b, o.c, o.d, o.e, o.f), exp), "Obis.from_string accessors", w)
        cdr = o.to_group_cdr_str()
        from symx.seq import fstr
        want = fstr(exp[2], ".", exp[3], ".", exp[4])          # E absent renders as 'None', as an f-string does
        same = (cdr == want) if isinstance(cdr, SStr) or isinstance(want, SStr) else (cdr == want)
        ctx.check(same if isinstance(same, SBool) else z3.BoolVal(bool(same)), "to_group_cdr_str() == 'C.D.E' of the transmitted groups", w)
    return path


ALPHA = "digit . - : * letter space"


def malformed_path(n):
    def path(eng, ctx):
        import han.obis as O
        L = 1 + eng.pick(n)
        cs = []
        for i in range(L):
            v = z3.Int(f"ch{i}")
            eng.add(z3.Or(z3.And(v >= 48, v <= 57), v == 46, v == 45, v == 58, v == 42, z3.And(v >= 97, v <= 122), z3.And(v >= 65, v <= 90), v == 32))
            cs.append(SInt(v))
        # precondition: no digit '.' digit anywhere
        for i in range(L - 2):
            d1 = (cs[i] >= 48) & (cs[i] <= 57)
            d2 = (cs[i + 2] >= 48) & (cs[i + 2] <= 57)
            eng.assume(~(d1 & (cs[i + 1] == 46) & d2))
        text = SStr(cs)
        w = {"sub": "malformed", "text": text}
        ctx.witness = w
        ctx.nontrivial()
        try:
            got = O.to_obis_tupple(text)
        except ValueError:
            ctx.obs = "ValueError"
            ctx.check(True, "ValueError for a string without digit.digit", w)
            return
        ctx.obs = list(got)
        ctx.violation("a string without digit.digit was accepted", w)
    return path


def free_groups(eng, prefix, pres, nonzero_optional=False):
    out = []
    for k, nm in enumerate("abcdef"):
        optional = k in (0, 1, 4, 5)
        if optional and not ((pres >> (k if k < 2 else k - 2)) & 1):
            out.append(None)
            continue
        v = z3.Int(f"{prefix}{nm}")
        eng.add(z3.And(v >= (1 if optional and nonzero_optional else 0), v <= 255))
        out.append(SInt(v))
    return tuple(out)


def eq_path():
    def path(eng, ctx):
        import han.obis as O
        pa, pb = eng.pick(16), eng.pick(16)
        ga, gb = free_groups(eng, "x", pa), free_groups(eng, "y", pb)
        a, b = O.Obis(ga), O.Obis(gb)
        w = {"sub": "eq", "a": list(ga), "b": list(gb)}
        ctx.witness = w
        ctx.nontrivial()
        same = all((x is None) == (y is None) for x, y in zip(ga, gb))
        spec = eq_groups(ga, gb) if same else z3.BoolVal(False)
        r = (a == b)
        ctx.obs = r
        if not ctx.check_iff(r if isinstance(r, (bool, SBool)) else bool(r), SBool(spec), "Obis == Obis <=> all groups equal", w):
            return
        if same:
            ha, hb = a.__hash__(), b.__hash__()
            eq = (ha == hb)
            eq = eq.t if isinstance(eq, SBool) else z3.BoolVal(bool(eq))
            ctx.check(z3.Implies(spec, eq), "equal objects hash equally", w)
    return path


def roundtrip_path():
    def path(eng, ctx):
        import han.obis as O
        pres = eng.pick(16)
        g = free_groups(eng, "g", pres, nonzero_optional=True)
        w = {"sub": "roundtrip", "groups": list(g)}
        ctx.witness = w
        ctx.nontrivial()
        s = O.Obis(g).to_reduced_str()
        ctx.obs = s
        try:
            back = O.Obis.from_string(s).as_tupple()
        except ENGINE_EXC:
            raise
        except ValueError:
            ctx.violation("to_reduced_str() output does not parse", w)
            return
        if not ctx.check(eq_groups(back, g), "from_string(to_reduced_str()) groups == groups", w):
            return
        # comparison with a string parses the string first
        o = O.Obis(g)
        r = (o == s)
        ctx.check(r if isinstance(r, SBool) else z3.BoolVal(bool(r)), "Obis == its own reduced string", {"sub": "eqstr", "a": list(g), "text": s, "expect": list(g)})
        r2 = (o == "not an obis code")
        ctx.check(z3.BoolVal(r2 is False or r2 == False), "Obis == malformed string is False", {"sub": "eqstr", "a": list(g), "text": "not an obis code", "expect": None})
    return path


def eqstr_path():
    """Obis == string parses the string first: compared with its own reduced string, the result is True exactly when no optional group is 0
    (a zero optional group is dropped by the reduced form and comes back as absent)"""
    def path(eng, ctx):
        import han.obis as O
        pres = eng.pick(16)
        g = free_groups(eng, "g", pres, nonzero_optional=False)
        o = O.Obis(g)
        s = o.to_reduced_str()
        back = None
        try:
            back = O.to_obis_tupple(s)
        except ENGINE_EXC:
            raise
        except ValueError:
            pass
        w = {"sub": "eqstr", "a": list(g), "text": s, "expect": None if back is None else list(back)}
        ctx.witness = w
        ctx.nontrivial()
        r = (o == s)
        ctx.obs = r
        spec = z3.BoolVal(False) if back is None else eq_groups(back, g)
        ctx.check_iff(r if isinstance(r, (bool, SBool)) else bool(r), SBool(spec), "Obis == string  <=>  groups == groups parsed from the string", w)
    return path


def scenarios(tier):
    q = tier == "quick"
    A = inject.assumptions(("obis",)) + ["hash() = uninterpreted function of the group tuple (models equal-arguments-equal-hash only)"]
    return [Scenario(f"parse: 16 presence patterns x reduced + six-part forms, every group free with 1..{2 if q else 3} digits", parse_path(2 if q else 3),
                     bounds={"groups": "free digits, value 0..255, leading zeros allowed", "digits_per_group": f"1..{2 if q else 3}", "forms": "reduced (16 presence patterns), six-part dotted with and without F"},
                     domains=("obis",), frontier=6, assumptions=A, replay_cap=200),
            Scenario(f"malformed: strings of 1..{4 if q else 6} characters over ({ALPHA}) without digit.digit", malformed_path(4 if q else 6),
                     bounds={"length": f"1..{4 if q else 6}", "alphabet": ALPHA}, domains=("obis",), frontier=6, assumptions=A, replay_cap=200),
            Scenario("== and hash on two free group tuples (16 x 16 presence patterns)", eq_path(), bounds={"groups": "0..255 free, any presence pattern on both sides"}, domains=("obis",), frontier=3, assumptions=A, replay_cap=120,
                     must_reach=("assert", "iff:true", "iff:false")),
            Scenario("== with a string: every presence pattern, optional groups may be 0", eqstr_path(), bounds={"groups": "0..255 free, optional groups absent or 0..255", "string": "the object's own reduced form"},
                     domains=("obis",), frontier=4, assumptions=A, replay_cap=120, must_reach=("assert", "iff:true", "iff:false")),
            Scenario("round trip from_string(to_reduced_str()) for all 16 presence patterns, optional groups non-zero", roundtrip_path(),
                     bounds={"groups": "C, D in 0..255; optional groups absent or 1..255"}, domains=("obis",), frontier=4, assumptions=A, replay_cap=200)]


def main():
    tier = runner.tier_from_argv()
    return runner.run_check(PROP, "model_checking", scenarios(tier), tier,
                            technique="path-wise symbolic execution of the real parser/formatter with the repository's regular expression interpreted over symbolic characters (backtracking matcher mirroring sre) and f-strings rewritten from source; z3 per path",
                            outside=["groups above 255", "malformed strings longer than stated or over other characters"])


if __name__ == "__main__":
    sys.exit(main())
