"""Shared pieces of the P1 (IEC 62056-21 mode D) harnesses: C04, C05, C14, C16, C19."""
import z3
from symx import core, inject
from symx.core import SBool, PathAbort
from symx.ints import SInt, LInt, sym_octet, ite
from symx.seq import SBytes
from symx.runner import Scenario
from spec import ref, ref_p1

IDENT = list(b"/LGF5E360")
IDENT2 = list(b"/ADN9 6534")
CRLF = [13, 10]


def reader():
    import han.dlde as D
    return D.ModeDReader()


def read_chunks(chunks):
    r = reader()
    out = []
    for ch in chunks:
        out += r.read(ch)
    return r, out


def split(stream, cuts):
    pts = [0] + list(cuts) + [len(stream)]
    return [stream[a:b] for a, b in zip(pts, pts[1:])]


def sym_crc16(octets):
    return ref.crc16_a001(octets, ite)


def hexchar_of_nibble(n):
    """character code of an upper-case hex digit for a (possibly symbolic) nibble; forks on n < 10 when symbolic"""
    if isinstance(n, SInt):
        return (n + 48) if bool(n < 10) else (n + 55)
    return ord("0123456789ABCDEF"[n])


def build_readout(ident, lines, checksum=True, eol=CRLF):
    """spec-built readout over possibly symbolic octets; the checksum is a term over the free octets, rendered as 4 hex digits"""
    body = list(ident) + list(eol)
    for ln in lines:
        body += list(ln) + list(eol)
    body += [0x21]
    if checksum:
        c = sym_crc16(body)
        body += [hexchar_of_nibble((c >> s) & 0xF) for s in (12, 8, 4, 0)]
    body += list(eol)
    return body


def free_digit(name):
    d = sym_octet(name)
    core.ENG.assume((d >= 48) & (d <= 57))
    return d


def free_printable(name, exclude=(0x21,)):
    d = sym_octet(name)
    core.ENG.assume((d >= 0x20) & (d < 0x7F))
    for x in exclude:
        core.ENG.assume(d != x)
    return d


def p1_sig(readouts):
    """[as_bytes, is_valid | 'exc:<Type>', payload] per readout — same shape as concrete.p1_obs"""
    out = []
    for r in readouts:
        try:
            v = r.is_valid
        except (PathAbort, core.EngineLimit, core.EngineFault):
            raise
        except Exception as e:
            v = "exc:" + type(e).__name__
        out.append([r.as_bytes, v, r.payload])
    return out


def expect_delivery(eng, ctx, stream, expect, cutsets, label, exact=True):
    """every readout of `expect` (lists of terms) is returned byte-identical and valid, in order, for each chunking"""
    first = True
    for cuts in cutsets:
        chunks = split(stream, cuts)
        w = {"kind": "p1", "chunks": chunks, "expect": [SBytes(e) for e in expect], "exact": exact}
        ctx.intend(w, alts=lambda: ({"kind": "p1", "chunks": split(stream, c), "expect": [SBytes(e) for e in expect], "exact": exact} for c in cutsets))
        _, got = read_chunks(chunks)
        if first:
            ctx.witness, ctx.obs, first = w, p1_sig(got), False
            ctx.nontrivial()
        if exact:
            if len(got) != len(expect):
                ctx.violation(f"{label} cuts={cuts}: {len(got)} readouts returned, {len(expect)} sent", w)
                return False
            for k, (g, e) in enumerate(zip(got, expect)):
                if not ctx.check(g.as_bytes.seq_eq(SBytes(e)), f"{label} cuts={cuts}: readout#{k} byte-identical", w):
                    return False
                if not bool(g.is_valid):
                    ctx.violation(f"{label} cuts={cuts}: readout#{k} reported invalid", w)
                    return False
        else:
            valid = [g for g in got if bool(g.is_valid)]
            idx = 0
            for k, e in enumerate(expect):
                while idx < len(valid) and not (len(valid[idx].as_bytes) == len(e) and eng.valid(valid[idx].as_bytes.seq_eq(SBytes(e)))[0]):
                    idx += 1
                if idx == len(valid):
                    ctx.violation(f"{label} cuts={cuts}: readout #{k} of the clean suffix not delivered valid", w)
                    return False
                idx += 1
            ctx.check(True, f"{label} cuts={cuts}", w)
    return True


def long_unfinished_readout(n):
    """identification line followed by data lines, about n octets, never an end line"""
    out = list(b"/LGF5E360\r\n")
    i = 0
    while len(out) < n:
        out += list(b"1-0:32.7.0(%06d.%d*V)\r\n" % (i, i % 10))
        i += 1
    return out


# ------------------------------------------------------------------------------------------------ C16, P1 part
def c16_noise_path(k):
    def path(eng, ctx):
        noise = [sym_octet(f"n{i}") for i in range(k)]
        kind = eng.pick(3)
        if kind == 1:
            noise = list(b"/LGF5E360\r\n1-0:1.8.0(0001") + noise          # the tail of a readout the reader joined in the middle of, damaged
        elif kind == 2:
            noise = noise + list(b"/ABC")                                     # looks like the start of an identification line
        d = free_digit("d")
        r1 = build_readout(IDENT, [list(b"1-0:1.8.0(00123") + [d] + list(b"*kWh)")], checksum=False)
        r2 = ref_p1.build_readout(IDENT2, [b"1-0:1.7.0(00.332*kW)", b"1-0:32.7.0(231.9*V)"])
        r3 = ref_p1.build_readout(IDENT, [b"0-0:1.0.0(210101120000W)"], checksum=False)
        stream = SBytes(noise + r1 + r2 + r3)
        n, m = len(stream), len(noise)
        cuts = [()] + [(c,) for c in range(max(1, m - k - 1), min(n, m + 14))] + [(n - 9,)]
        expect_delivery(eng, ctx, stream, [r2, r3], cuts, f"p1 noise kind={kind} k={k}", exact=False)
    return path


def c16_long_path(n_prefix, k):
    """an unfinished readout of n_prefix octets (first chunk), then ONE chunk holding k free octets and three clean readouts:
    the buffer guard (8191) is crossed with the fresh chunk in hand; readouts 2 and 3 of the chunk must be delivered"""
    def path(eng, ctx):
        prefix = long_unfinished_readout(n_prefix)
        noise = [sym_octet(f"n{i}") for i in range(k)]
        lines = [b"1-0:%d.7.0(00.%03d*kW)" % (c, c) for c in (1, 2, 21, 22, 41, 42, 61, 62)] + [b"1-0:32.7.0(231.9*V)", b"1-0:52.7.0(232.9*V)", b"1-0:72.7.0(233.9*V)"]
        r1 = ref_p1.build_readout(b"/LGF5E360", [b"1-0:1.8.0(000123*kWh)"] + lines)
        r2 = ref_p1.build_readout(IDENT2, [b"1-0:1.7.0(00.332*kW)"] + lines)
        r3 = ref_p1.build_readout(b"/LGF5E360", [b"0-0:1.0.0(210101120000W)"] + lines, checksum=False)
        stream = SBytes(prefix + noise + r1 + r2 + r3)
        a = len(prefix)
        expect_delivery(eng, ctx, stream, [r2, r3], [(a,), (a + k,), (a // 2, a)], f"p1 unfinished readout of {a} octets + one chunk", exact=False)
    return path


def c16_long_suffix_path(k, n_readouts, size, chunk, offset):
    """k free noise octets, then many readouts fed in chunks that never fall on a readout boundary: all but the first must arrive"""
    def path(eng, ctx):
        from checks.c05 import make_readout
        noise = [sym_octet(f"n{i}") for i in range(k)]
        rs = [make_readout(i, size) for i in range(n_readouts)]
        stream = SBytes(noise + [c for r in rs for c in r])
        n = len(stream)
        cuts = tuple(range(offset, n, chunk))
        expect_delivery(eng, ctx, stream, rs[1:], [cuts], f"p1 noise k={k} + {n_readouts} readouts of {size} in chunks of {chunk}", exact=False)
    return path


def c16_scenarios(tier):
    q = tier == "quick"
    k = 3 if q else 5
    long_ = [Scenario(f"p1 unfinished readout of ~{n} octets, then one chunk with {2} free octets + 3 readouts", c16_long_path(n, 2),
                      bounds={"prefix_octets": n, "then": "one chunk: 2 free octets + 3 clean readouts (~300 octets each)", "claim": "readouts 2 and 3 delivered"}, domains=("p1",), frontier=3, workers=4,
                      assumptions=inject.assumptions(("p1",)), replay_cap=20) for n in ((7900, 8300) if q else (4000, 7900, 8100, 8191, 8300, 12000))]
    long_.append(Scenario("p1 2 free noise octets + 120 readouts of 104 octets in 104-octet chunks from offset 20", c16_long_suffix_path(2, 120, 104, 104, 20),
                          bounds={"noise": "2 free octets", "suffix": "120 readouts (12 KiB), chunk boundaries never on a readout boundary", "claim": "every readout except possibly the first is delivered"},
                          domains=("p1",), frontier=3, workers=4, assumptions=inject.assumptions(("p1",)), replay_cap=10))
    for (nr, size, chunk, offset) in ([(30, 300, 8600, 450), (32, 300, 9100, 307)] if q else [(30, 300, 8600, 450), (32, 300, 9100, 307), (40, 300, 8191, 302), (12, 1000, 8192, 1500), (30, 300, 8000, 310)]):
        long_.append(Scenario(f"p1 2 free noise octets + {nr} readouts of ~{size} octets: first call {offset} octets, then calls of {chunk}", c16_long_suffix_path(2, nr, size, chunk, offset),
                              bounds={"noise": "2 free octets", "suffix": f"{nr} readouts; the first call ends inside readout 1 or 2, the second call brings more than 8 KiB at once", "claim": "every readout except possibly the first is delivered"},
                              domains=("p1",), frontier=3, workers=2, assumptions=inject.assumptions(("p1",)), replay_cap=10))
    return long_ + [Scenario(f"p1 free noise k={k} (+readout-looking prefixes) + 3 readouts", c16_noise_path(k),
                     bounds={"noise": f"{k} free octets alone | after a truncated readout | before '/ABC'", "suffix": "3 spec readouts (one free digit)", "splittings": "one call, every cut around the noise/readout boundary"},
                     domains=("p1",), frontier=4, assumptions=inject.assumptions(("p1",)), replay_cap=60)]
