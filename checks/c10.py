"""C10 — COSEM date-time fields decode to the same instant the meter sent: all 12 octets free under the statement's validity
constraints, in each syntactic position (APDU header tagged / untagged; clock element of Aidon, Kaifa positional, Kaifa OBIS-tagged and
Kamstrup lists)."""
import sys
from symx import runner, inject
from symx.runner import Scenario
from checks import decoders as D
from spec import cosem_ref as CR

PROP = "C10"


def with_apdu_clock(o, tagged):
    """re-wrap the frame's APDU date-time field as tagged (09 0C ...) or untagged (0C ...)"""
    clk, pos = CR.split_frame(o)
    c = o[clk[0]:clk[1]] if clk else [0x07, 0xE4, 1, 1, 3, 10, 10, 20, 0xFF, 0x80, 0x00, 0x00]
    return list(o[:8]) + ([0x09, 0x0C] if tagged else [0x0C]) + list(c) + list(o[pos:])


POSITIONS = [
    ("APDU tagged, Kaifa list 1", "kaifa", lambda: with_apdu_clock(D.fixture("kaifa", "no_list_1"), True)),
    ("APDU untagged, Kaifa list 1", "kaifa", lambda: with_apdu_clock(D.fixture("kaifa", "no_list_1"), False)),
    ("APDU untagged, Kamstrup list 1", "kamstrup", lambda: D.fixture("kamstrup", "no_list_1_three_phase")),
    ("APDU tagged, Kamstrup list 1", "kamstrup", lambda: with_apdu_clock(D.fixture("kamstrup", "no_list_1_three_phase"), True)),
    ("Aidon clock element (list 3)", "aidon", lambda: D.fixture("aidon", "no_list_3")),
    ("Kaifa positional clock element + APDU clock (list 3)", "kaifa", lambda: D.fixture("kaifa", "no_list_3")),
    ("Kaifa OBIS-tagged clock element (SE list)", "kaifa", lambda: D.fixture("kaifa", "se_list")),
    ("Kamstrup clock element (bare body) + APDU clock (frame), list 2", "kamstrup", lambda: D.fixture("kamstrup", "no_list_2_three_phase")),
]


def path_for(label, meter, mk):
    def path(eng, ctx):
        o = mk()
        # only the clocks are holes here: registers and texts stay as captured
        o = clock_holes(eng, o, meter)
        D.decode_and_compare(eng, ctx, meter, o, "frame", label, only=("clock",))
    return path


def clock_holes(eng, o, meter):
    import z3
    from symx.ints import sym_octet
    o = list(o)
    clk, pos = CR.split_frame(o)
    spans = [clk] if clk else []
    root = CR.walk(o, pos, greedy=(meter == "kamstrup"))

    def visit(node, parent, idx):
        if node.kind in ("array", "struct"):
            for i, k in enumerate(node.children):
                visit(k, node, i)
        elif node.kind == "octets" and node.end - node.vstart == 12 and D._is_clock_slot(meter, parent, idx, o):
            spans.append((node.vstart, node.end))
    visit(root, None, 0)
    for n, (a, b) in enumerate(spans):
        c = [sym_octet(f"t{n}_{i}", "int") for i in range(12)]
        D.constrain_clock(eng, c)
        o[a:b] = c
    return o


def scenarios(tier):
    A = inject.assumptions(("decoders",))
    return [Scenario(f"{label}: 12 free octets", path_for(label, meter, mk),
                     bounds={"position": label, "free": "year 1..9999, month, day (valid calendar date), hour, minute, second, hundredths 0..99|0xFF, deviation -720..720|0x8000, day-of-week any, clock status any (256 values)"},
                     domains=("decoders",), engine_opts={"slicing": True}, frontier=5, assumptions=A, replay_cap=150, must_reach=("assert",)) for label, meter, mk in POSITIONS]


def main():
    tier = runner.tier_from_argv()
    return runner.run_check(PROP, "model_checking", scenarios(tier), tier,
                            technique="symbolic execution of the real construct DateTime grammar (incl. the bit-field clock status branch) and decoders on 12 free octets per date-time; civil fields, microseconds and UTC offset compared with the octets per path (z3, integer arithmetic)",
                            assumptions=["datetime/timezone/timedelta are modelled with CPython's validation rules (validated per path against the real datetime by the pristine replay)"],
                            outside=["date-times with unspecified (0xFF) year/month/day/hour/minute/second components", "deviation outside -720..720"])


if __name__ == "__main__":
    sys.exit(main())
