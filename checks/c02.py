"""C02 — HDLC: every well-formed frame on a clean stream is delivered once, in order, valid, with exact payload/header fields,
however the stream is split. Frames are spec-built (check sequences are terms over the free octets).
Family P: concrete address shapes, free control + free payload. Family H: every header field free, payload empty / one free octet.
(Header and payload free together make every HCS/FCS octet test a ~70-variable XOR constraint: outside the bounds.)"""
import sys
import z3
from symx import core, runner, inject
from symx.core import SBool, PathAbort
from symx.runner import Scenario
from symx.seq import SBytes
from symx.ints import SInt, sym_octet
from checks import hdlc_common as HC
from checks.c01 import eqv
from spec import ref

PROP = "C02"
SHAPES = [(1, 1), (1, 2), (2, 1), (4, 1), (1, 4), (2, 2), (4, 4), (3, 1)]


def concrete_addr(n, base):
    return [((base + 2 * i) & 0xFE) for i in range(n - 1)] + [(base | 1) & 0xFF]


def is_in(o, vals):
    if isinstance(o, SInt):
        r = None
        for v in vals:
            e = (o == v)
            r = e if r is None else (r | e)
        return bool(r)
    return o in vals


def wire_of(eng, cfg, frame, hdr_len):
    """octets on the wire for a frame; enforces the statement's precondition in the non-stuffing modes"""
    if cfg[0]:
        return HC.sym_stuff(frame)
    for o in frame[:hdr_len + 2]:
        if isinstance(o, SInt):
            eng.assume(o != 0x7E)
        elif o == 0x7E:
            raise PathAbort()
    if cfg[1]:
        for i, o in enumerate(frame):
            nxt = frame[i + 1] if i + 1 < len(frame) else 0x7E
            a, b = (o == 0x7D), (nxt == 0x7E)      # escape octet directly before a flag / the frame end: outside the statement's domain
            if a is False or b is False:
                continue
            if a is True and b is True:
                raise PathAbort()
            eng.assume(~b if a is True else (~a if b is True else ~(a & b)))
    return list(frame)


def deliver_assertions(eng, ctx, cfg, stream, frames, payloads, headers, cutsets, label, twin=None):
    """frames: spec frames (lists of terms) in order. Asserts exact delivery for each chunking. twin: chunks read by a second
    reader object of the same configuration after the first call of the reader under test."""
    exp_w = [SBytes(f) for f in frames]
    first = True
    for cuts in cutsets:
        chunks = HC.split(stream, cuts)
        w = {"kind": "hdlc", "cfg": list(cfg), "chunks": chunks, "expect": exp_w, "exact": True,
             "payloads": [None if not p else SBytes(p) for p in payloads]}
        ctx.intend(w, alts=lambda: (dict(w, chunks=HC.split(stream, c)) for c in cutsets))
        if twin:
            w["twin"] = twin
            _, got = HC.read_chunks_twin(cfg, chunks, twin)
        else:
            _, got = HC.read_chunks(cfg, chunks)
        if first:
            ctx.witness, ctx.obs, first = w, HC.sig(got), False
            ctx.nontrivial()
        if len(got) != len(frames):
            ctx.violation(f"{label} cuts={cuts}: {len(got)} frames returned, {len(frames)} sent", w)
            return
        for k, (g, f, p, hd) in enumerate(zip(got, frames, payloads, headers)):
            if not bool(g.is_valid):
                ctx.violation(f"{label} cuts={cuts}: frame#{k} reported invalid", w)
                return
            conds = [g.as_bytes.seq_eq(SBytes(f))]
            conds.append(z3.BoolVal(g.payload is None) if not p else HC.seq_eq(g.payload, SBytes(p)))
            h = g.header
            conds += [HC.seq_eq(h.destination_address, SBytes(hd["dst"])), HC.seq_eq(h.source_address, SBytes(hd["src"])), eqv(h.control, hd["control"]),
                      eqv(h.frame_length, len(f))]
            if "fmt" in hd:
                conds += [eqv(h.frame_format_type, hd["fmt"])]
            if not ctx.check(z3.And(conds), f"{label} cuts={cuts}: frame#{k} octets/payload/header fields", w):
                return


def cutsets_for(n, q):
    cs = [()] + [(c,) for c in range(1, n)]
    cs.append(tuple(range(1, n)))
    return cs


def family_p(cfg, ks, shapes, noise, fills, q):
    def path(eng, ctx):
        shape_idx = eng.pick(len(shapes)) if len(shapes) > 1 else 0
        fill = fills[eng.pick(len(fills))] if len(fills) > 1 else fills[0]
        frames, payloads, headers, wire = [], [], [], []
        nz = HC.free_octets("n", noise, exclude=(0x7E,))
        wire += nz + [0x7E] * fill[0]
        for i, k in enumerate(ks):
            dl, sl = shapes[(shape_idx + i) % len(shapes)]
            dst, src = concrete_addr(dl, 0x02 + 0x10 * i), concrete_addr(sl, 0x20 + 0x10 * i)
            ctrl = sym_octet(f"c{i}")
            pay = [sym_octet(f"p{i}_{j}") for j in range(k)]
            f = HC.build_frame(dst, src, ctrl, pay, fmt_type=0xA)
            frames.append(f); payloads.append(pay); headers.append({"dst": dst, "src": src, "control": ctrl, "fmt": 0xA})
            wire += wire_of(eng, cfg, f, 2 + dl + sl + 1) + [0x7E] * fill[min(i + 1, len(fill) - 1)]
        stream = SBytes(wire)
        deliver_assertions(eng, ctx, cfg, stream, frames, payloads, headers, cutsets_for(len(stream), q), "family P")
    return path


def family_h(cfg, shapes, pay_len, q):
    def path(eng, ctx):
        dl, sl = shapes[eng.pick(len(shapes))] if len(shapes) > 1 else shapes[0]
        frames, payloads, headers, wire = [], [], [], [0x7E]
        dst, src = HC.free_address("d", dl), HC.free_address("s", sl)
        ctrl, o0 = sym_octet("c"), sym_octet("o0")
        pay = [sym_octet(f"p{j}") for j in range(pay_len)]
        f = HC.build_frame(dst, src, ctrl, pay, o0=o0)
        frames.append(f); payloads.append(pay); headers.append({"dst": dst, "src": src, "control": ctrl, "fmt": (o0 >> 4)})
        wire += wire_of(eng, cfg, f, 2 + dl + sl + 1) + [0x7E]
        f2 = ref.build_frame([0x03], [0x21], 0x13, [0xE6])
        frames.append(f2); payloads.append([0xE6]); headers.append({"dst": [0x03], "src": [0x21], "control": 0x13, "fmt": 0xA})
        wire += wire_of(eng, cfg, f2, 5) + [0x7E]
        stream = SBytes(wire)
        deliver_assertions(eng, ctx, cfg, stream, frames, payloads, headers, cutsets_for(len(stream), q), "family H")
    return path


def bystander(cfg, k):
    """two well-formed frames with free control/payload octets to the reader under test, cut once at every position; between the
    two calls another reader object of the same configuration reads a stream ending in free octets. Delivery must be unchanged."""
    def path(eng, ctx):
        frames, payloads, headers, wire = [], [], [], [0x7E]
        for i in range(2):
            dst, src = concrete_addr(1, 0x02 + 0x10 * i), concrete_addr(1, 0x20 + 0x10 * i)
            ctrl = sym_octet(f"c{i}")
            pay = [sym_octet(f"p{i}_{j}") for j in range(k if i == 0 else 0)]
            f = HC.build_frame(dst, src, ctrl, pay, fmt_type=0xA)
            frames.append(f); payloads.append(pay); headers.append({"dst": dst, "src": src, "control": ctrl, "fmt": 0xA})
            wire += wire_of(eng, cfg, f, 5) + [0x7E]
        stream = SBytes(wire)
        other = [SBytes([0x7E] + ref.build_frame([0x03], [0x21], 0x13, [0x41])[:-1]), SBytes([sym_octet("t0"), sym_octet("t1")])]
        n = len(stream)
        deliver_assertions(eng, ctx, cfg, stream, frames, payloads, headers, [(c,) for c in range(1, n)], "bystander reader", twin=other)
    return path


def maxsize(cfg, total, free_positions):
    """one frame of `total` octets with a flag/escape-dense concrete payload, a few free payload octets and a free control octet,
    followed by a small frame; cuts around the frame end and in the middle."""
    def path(eng, ctx):
        dst, src = [0x02, 0x23], [0x21]
        k = total - (2 + 3 + 1 + 2 + 2)
        pay = [(0x7E if i % 5 == 0 else 0x7D if i % 7 == 0 else (i * 37 + 11) & 0xFF) for i in range(k)]
        if cfg[1] and not cfg[0]:          # abort detection without stuffing: an escape octet directly before a flag is outside the statement's domain
            pay = [(0x7C if (o == 0x7D and (i + 1 >= k or pay[i + 1] == 0x7E or i + 1 in [p if p >= 0 else k + p for p in free_positions])) else o) for i, o in enumerate(pay)]
        for j, p in enumerate(free_positions):
            pay[p if p >= 0 else k + p] = sym_octet(f"p{j}")
        ctrl = sym_octet("c")
        f = HC.build_frame(dst, src, ctrl, pay)
        assert len(f) == total
        f2 = ref.build_frame([0x03], [0x21], 0x13, [0xE6])
        wire = [0x7E] + wire_of(eng, cfg, f, 6) + [0x7E] + wire_of(eng, cfg, f2, 5) + [0x7E]
        stream = SBytes(wire)
        n = len(stream)
        cuts = [(), (1,), (n // 2,), (n - 12,), (n - 11,), (n - 10,), (n - 9,), (n - 1,), (9, n - 10)]
        deliver_assertions(eng, ctx, cfg, stream, [f, f2], [pay, [0xE6]], [{"dst": dst, "src": src, "control": ctrl, "fmt": 0xA}, {"dst": [0x03], "src": [0x21], "control": 0x13, "fmt": 0xA}], cuts, f"max-size {total}")
    return path


def scenarios(tier):
    q = tier == "quick"
    A = inject.assumptions(("hdlc",))
    out = []
    for cfg in HC.CONFIGS:
        ks = (2, 1) if q else (3, 2)
        shapes = SHAPES[:2] if q else SHAPES[:3]
        fills = [(1, 1, 1)] if q else [(1, 1, 1), (2, 3, 1)]
        out.append(Scenario(f"family P payload={ks} {HC.cfg_name(cfg)}", family_p(cfg, ks, shapes, 0, fills, q),
                            bounds={"frames": len(ks), "free_payload_octets": list(ks), "free": "control + payload octets", "address_shapes": [list(s) for s in shapes], "inter_frame_flags": fills,
                                    "splittings": "every single cut + byte-at-a-time", "configuration": HC.cfg_name(cfg)}, domains=("hdlc",), frontier=5, assumptions=A, replay_cap=60))
        out.append(Scenario(f"family P after noise, varied flag fill {HC.cfg_name(cfg)}", family_p(cfg, (1, 1) if q else (2, 1), shapes[:1] if q else shapes[:2], 2 if q else 4, [(2, 3, 1), (3, 1, 2)], q),
                            bounds={"leading_noise": f"{2 if q else 4} free non-flag octets", "frames": 2, "inter_frame_flags": [(2, 3, 1), (3, 1, 2)], "configuration": HC.cfg_name(cfg)}, domains=("hdlc",), frontier=5, assumptions=A, replay_cap=60))
        hs = [(1, 1)] if q else SHAPES[:2]
        out.append(Scenario(f"family H (all header fields free) {HC.cfg_name(cfg)}", family_h(cfg, hs, 0, q),
                            bounds={"free": "format type, S bit, every address octet (low bits as the standard requires), control", "payload": "empty (header-only frame)", "address_shapes": [list(s) for s in hs],
                                    "splittings": "every single cut + byte-at-a-time", "configuration": HC.cfg_name(cfg)}, domains=("hdlc",), frontier=5, assumptions=A, replay_cap=60,
                            engine_opts={"timeout_ms": 60000}))
        out.append(Scenario(f"bystander reader object fed between the calls {HC.cfg_name(cfg)}", bystander(cfg, 1 if q else 2),
                            bounds={"frames": 2, "free": f"control octets + {1 if q else 2} payload octet(s) of the frames; the last 2 octets read by the other reader", "splittings": "every single cut; the other reader reads after the first call",
                                    "configuration": HC.cfg_name(cfg)}, domains=("hdlc",), frontier=5, assumptions=A, replay_cap=40))
        if q and cfg in ((True, False), (False, False)):
            out.append(Scenario(f"max-size frame 2047 octets, flag/escape-dense payload, free control octet {HC.cfg_name(cfg)}", maxsize(cfg, 2047, (-1,)),
                                bounds={"frame_octets": 2047, "payload": "concrete, every 5th octet 7E and every 7th 7D (stuffed on the wire: > 2047 wire octets)", "free": "control octet and last payload octet (so that the FCS octets take every value, 7E included)", "configuration": HC.cfg_name(cfg)},
                                domains=("hdlc",), frontier=3, workers=8, assumptions=A, replay_cap=10, engine_opts={"timeout_ms": 120000}))
        if not q:
            out.append(Scenario(f"family H + 1 payload octet {HC.cfg_name(cfg)}", family_h(cfg, SHAPES[:1], 1, q), bounds={"free": "all header fields + one payload octet", "configuration": HC.cfg_name(cfg)},
                                domains=("hdlc",), frontier=5, assumptions=A, replay_cap=60, engine_opts={"timeout_ms": 60000}))
            for total in (2046, 2047):
                out.append(Scenario(f"max-size frame {total} octets {HC.cfg_name(cfg)}", maxsize(cfg, total, (0, -1)),
                                    bounds={"frame_octets": total, "payload": "concrete flag/escape-dense", "free": "control + first and last payload octet", "configuration": HC.cfg_name(cfg)},
                                    domains=("hdlc",), frontier=3, workers=8, assumptions=A, replay_cap=20, engine_opts={"timeout_ms": 120000}))
    return out


def main():
    tier = runner.tier_from_argv()
    return runner.run_check(PROP, "model_checking", scenarios(tier), tier,
                            technique="path-wise symbolic execution of the real HdlcFrameReader on spec-built frames whose check sequences are GF(2)-affine terms over the free octets; delivery/equality decided by z3 + Gauss-Jordan store per path",
                            assumptions=["non-stuffing modes: header octets (through the HCS) contain no 0x7E; with abort detection no 0x7D directly before a 0x7E or the frame end (the statement's own precondition)"],
                            outside=["header fields and payload free at the same time", "more than the stated free payload octets", "more than 3 frames per stream", "cut sets other than single cuts and byte-at-a-time"])


if __name__ == "__main__":
    sys.exit(main())
