"""C04 — P1: a readout is reported valid only if its CRC16 and identification check out (also for 0000), completeness for correct
readouts, payload exactness. DataReadout built directly from bytes and obtained from ModeDReader.read()."""
import sys
import z3
from symx import core, runner, inject
from symx.core import SBool, PathAbort, EngineLimit, EngineFault
from symx.runner import Scenario
from symx.seq import SBytes
from symx.ints import SInt, sym_octet, ite
from checks import p1_common as PC
from spec import ref, ref_p1

PROP = "C04"


def touch_first(eng, r, orders=3):
    """the validity of a readout must not depend on which accessor was used before: try three access orders"""
    order = eng.pick(orders) if orders > 1 else 0
    if order == 1:
        try:
            r.identification_line
        except (PathAbort, EngineLimit, EngineFault):
            raise
        except Exception:
            pass
    elif order == 2:
        for acc in ("payload", "as_bytes", "expected_checksum", "end_line"):
            try:
                getattr(r, acc)
            except (PathAbort, EngineLimit, EngineFault):
                raise
            except Exception:
                pass
        try:
            r.is_valid
        except (PathAbort, EngineLimit, EngineFault):
            raise
        except Exception:
            pass
    return order


def readout_assertions(eng, ctx, r, w, label, orders=1):
    """r: real DataReadout object on symbolic octets"""
    order = touch_first(eng, r, orders)
    label = f"{label} [access order {order}]"
    w = dict(w, order=order)
    if ctx.witness is not None and "order" not in ctx.witness:
        ctx.witness = dict(ctx.witness, order=order)
    raw = list(r.as_bytes)
    try:
        valid = bool(r.is_valid)
    except (PathAbort, EngineLimit, EngineFault):
        raise
    except Exception:
        ctx.reach("is_valid-raises")            # C14's subject; nothing is reported valid here
        return True
    ctx.reach("valid" if valid else "invalid")
    end, lf = ref_p1.find(raw, 0x21), ref_p1.find(raw, 10)
    ident = ref_p1.ident_ok(raw[:lf + 1]) if lf >= 0 else False
    cs = ref_p1.checksum_field(raw, end)
    crc = ref.crc16_a001(raw[:end + 1], ite)
    val = None if not isinstance(cs, list) else ((cs[0] * 16 + cs[1]) * 16 + cs[2]) * 16 + cs[3]
    if valid:
        if not ident:
            ctx.violation(f"{label}: valid although the identification line is malformed", w)
            return False
        if val is not None:
            ctx.reach("valid-with-checksum")
            if not ctx.check(val == crc, f"{label}: valid => transmitted checksum == CRC16('/'..'!')", w):
                return False
        exp = SBytes(raw[lf + 1:end]) if lf < end else SBytes([])
        return ctx.check(PC_seq_eq(r.payload, exp), f"{label}: payload == bytes between identification line and '!'", w)
    if ident and val is not None and lf < end and all(bool(c < 128) for c in raw):
        ctx.reach("invalid-wellformed")
        return ctx.check(val != crc, f"{label}: invalid although ident/ASCII fine => checksum must differ", w)
    return True


def PC_seq_eq(a, b):
    if not isinstance(a, SBytes):
        a = SBytes(list(a))
    return a.seq_eq(b)


def direct_path(k_print, k_any, orders=1):
    def path(eng, ctx):
        import han.dlde as D
        data = list(b"1-0:1.8.0(") + [PC.free_printable(f"d{i}") for i in range(k_print)] + list(b"*kWh)\r\n")
        data += [sym_octet(f"u{i}") for i in range(k_any)]
        if k_any:
            data += [13, 10]
        hx = [sym_octet(f"h{i}") for i in range(4)]
        raw = PC.IDENT + PC.CRLF + data + [0x21] + hx + PC.CRLF
        w = {"readout": SBytes(raw)}
        ctx.witness = w
        try:
            r = D.DataReadout(SBytes(raw))
        except ValueError:
            ctx.reach("ctor-refuses")
            return
        ctx.obs = PC.p1_sig([r])
        ctx.nontrivial()
        readout_assertions(eng, ctx, r, w, f"direct k={k_print}+{k_any}", orders)
    return path


def ident_path(nid):
    """identification line with 4+nid free characters (3 flag letters, baud digit, nid id characters), no checksum"""
    def path(eng, ctx):
        import han.dlde as D
        a = [sym_octet(f"i{i}") for i in range(4 + nid)]
        raw = [0x2F] + a[:4] + list(b"5E") + a[4:] + PC.CRLF + list(b"1-0:1.8.0(000123*kWh)\r\n!\r\n")
        w = {"readout": SBytes(raw)}
        ctx.witness = w
        try:
            r = D.DataReadout(SBytes(raw))
        except ValueError:
            ctx.reach("ctor-refuses")
            return
        ctx.obs = PC.p1_sig([r])
        ctx.nontrivial()
        readout_assertions(eng, ctx, r, w, "free ident")
    return path


FIXTURE = ref_p1.build_readout(b"/ADN9 6534", [b"0-0:1.0.0(210217184019W)", b"1-0:1.8.0(00006678.394*kWh)", b"1-0:1.7.0(0001.727*kW)", b"1-0:32.7.0(233.9*V)"])


def window_path(width, via_reader):
    """a genuine readout with `width` consecutive free octets at any offset; directly or through ModeDReader (3 cut variants)"""
    def path(eng, ctx):
        import han.dlde as D
        p = eng.pick(len(FIXTURE) - width + 1)
        raw = list(FIXTURE)
        for j in range(width):
            raw[p + j] = sym_octet(f"x{j}")
        if via_reader:
            stream = SBytes(raw)
            n = len(stream)
            bang = FIXTURE.index(0x21)
            ref_sig = None
            special = sorted({max(1, p), min(n - 1, p + 1), bang, bang + 1, bang + 2, bang + 5, n - 2, n - 1})
            for cuts in [()] + [(c,) for c in special]:
                chunks = PC.split(stream, cuts)
                w = {"kind": "p1", "chunks": chunks}
                ctx.intend(w)
                try:
                    _, rs = PC.read_chunks(chunks)
                except (PathAbort, EngineLimit, EngineFault):
                    raise
                except Exception:
                    ctx.reach("reader-raises")        # C14's subject
                    continue
                if ctx.witness is None:
                    ctx.witness, ctx.obs = w, PC.p1_sig(rs)
                    ctx.nontrivial()
                # what the reader returns must not depend on the cut (the checksum after '!' may arrive in a later chunk)
                cur = [(r.as_bytes, r.is_valid if not isinstance(r.is_valid, bool) else r.is_valid) for r in rs] if False else None
                sig_now = []
                for r in rs:
                    try:
                        v = bool(r.is_valid)
                    except (PathAbort, EngineLimit, EngineFault):
                        raise
                    except Exception:
                        v = "exc"
                    sig_now.append((r.as_bytes, v))
                if ref_sig is None:
                    ref_sig = sig_now
                else:
                    same = len(sig_now) == len(ref_sig) and all(a[1] == b[1] and len(a[0]) == len(b[0]) for a, b in zip(sig_now, ref_sig))
                    if not same:
                        ctx.violation(f"reader window@{p}: readouts / validity for cuts={cuts} differ from the single-call result", {"kind": "p1", "chunks": chunks, "chunks_ref": [stream], "sub": "cutdep"})
                        return
                    conds = [a[0].seq_eq(b[0]) for a, b in zip(sig_now, ref_sig)]
                    if conds and not ctx.check(z3.And(conds), f"reader window@{p} cuts={cuts}: same readout bytes as in one call", {"kind": "p1", "chunks": chunks, "chunks_ref": [stream], "sub": "cutdep"}):
                        return
                for r in rs:
                    if not readout_assertions(eng, ctx, r, w, f"reader window@{p} cuts={cuts}"):
                        return
                ctx.reach("assert")
        else:
            w = {"readout": SBytes(raw)}
            ctx.witness = w
            try:
                r = D.DataReadout(SBytes(raw))
            except ValueError:
                ctx.reach("ctor-refuses"); ctx.reach("assert")
                return
            ctx.obs = PC.p1_sig([r])
            ctx.nontrivial()
            readout_assertions(eng, ctx, r, w, f"window@{p}")
            ctx.reach("assert")
    return path


def after_runaway_path(n_prefix):
    """through the reader: a readout that never ends (discarded by the buffer guard), then a well-formed readout whose data digit and
    four checksum characters are free: validity must be judged on that readout's own bytes only"""
    def path(eng, ctx):
        prefix = PC.long_unfinished_readout(n_prefix)
        d = PC.free_digit("d")
        hx = [sym_octet(f"h{i}") for i in range(4)]
        body = PC.IDENT + PC.CRLF + list(b"1-0:1.8.0(00012") + [d] + list(b"*kWh)\r\n") + [0x21]
        r1 = body + hx + PC.CRLF
        r2 = ref_p1.build_readout(b"/ADN9 6534", [b"1-0:1.7.0(0001.727*kW)"])
        stream = SBytes(prefix + list(b"\r\n") + r1 + r2)
        a = len(prefix)
        for cuts in [(a,), (a, a + 2), (a // 2, a, a + 2 + len(r1))]:
            chunks = PC.split(stream, cuts)
            w = {"kind": "p1", "chunks": chunks}
            ctx.intend(w)
            try:
                _, rs = PC.read_chunks(chunks)
            except (PathAbort, EngineLimit, EngineFault):
                raise
            except Exception:
                ctx.reach("reader-raises")
                continue
            if ctx.witness is None:
                ctx.witness, ctx.obs = w, PC.p1_sig(rs)
                ctx.nontrivial()
            for r in rs:
                if len(r.as_bytes) > 2000:
                    continue                      # the runaway readout itself, if it is returned at all
                if not readout_assertions(eng, ctx, r, w, f"after a runaway readout of {a} octets, cuts={cuts}"):
                    return
            ctx.reach("assert")
    return path


def scenarios(tier):
    q = tier == "quick"
    A = inject.assumptions(("p1",))
    out = [Scenario(f"direct: {3 if q else 6} free printable data octets + 4 free checksum characters", direct_path(3 if q else 6, 0, orders=3),
                    bounds={"accessor_orders": "is_valid first | identification_line first | payload, as_bytes, expected_checksum, end_line, is_valid first", "free": "data octets printable except '!'; the 4 checksum characters unconstrained (all 2^32 values: hex in either case, 0000, signs, underscores, blanks, non-ASCII)"},
                    domains=("p1",), frontier=7, assumptions=A, must_reach=("assert", "valid", "invalid", "valid-with-checksum", "invalid-wellformed")),
           Scenario(f"direct: 1 printable + {2 if q else 3} unconstrained data octets + 4 free checksum characters", direct_path(1, 2 if q else 3),
                    bounds={"free": "unconstrained octets may be '!', LF, CR, >= 0x80"}, domains=("p1",), frontier=7, assumptions=A, engine_opts={"timeout_ms": 60000}),
           Scenario(f"direct: identification line with {5 if q else 7} free characters, no checksum", ident_path(1 if q else 3), bounds={"free": f"3 flag-id letters, baud digit, {1 if q else 3} id characters: any octet"},
                    domains=("p1",), frontier=7, assumptions=A, must_reach=("assert", "valid")),
           Scenario("genuine readout with a 1-octet free window at every offset, through ModeDReader", window_path(1, True),
                    bounds={"readout_octets": len(FIXTURE), "window": 1, "splittings": "one call; cuts around the window, right before/after '!', inside and after the checksum - all must give the same readouts and validity"}, domains=("p1",), frontier=3, assumptions=A, replay_cap=80),
           ]
    for n in ((8300,) if q else (7900, 8300, 20000)):
        out.append(Scenario(f"through ModeDReader after a runaway readout of ~{n} octets: readout with a free digit and 4 free checksum characters", after_runaway_path(n),
                            bounds={"prefix_octets": n, "free": "one data digit, four checksum characters"}, domains=("p1",), frontier=6, assumptions=A, replay_cap=60))
    if not q:
        out.append(Scenario("genuine readout with a 2-octet free window at every offset (direct)", window_path(2, False), bounds={"readout_octets": len(FIXTURE), "window": 2},
                            domains=("p1",), frontier=3, assumptions=A, replay_cap=80))
    return out


def main():
    tier = runner.tier_from_argv()
    return runner.run_check(PROP, "model_checking", scenarios(tier), tier,
                            technique="path-wise symbolic execution of the real DataReadout/ModeDReader on z3 terms; CRC16 kept in GF(2)-affine form, is_valid compared with an independent bit-serial CRC16 and identification-line predicate per path",
                            assumptions=["'is a checksum' = exactly four hexadecimal digits after '!' (either case); other texts after '!' carry no claim"],
                            outside=["more free data octets than stated", "readouts whose text after '!' is not four hex digits (nothing claimed)"])


if __name__ == "__main__":
    sys.exit(main())
