"""C03 — FCS-16 implementation equals the RFC 1662 definition for every input.

Level: proof. Closed lemmas (each one `unsat`, z3 5.1 through the API and /usr/bin/z3 4.8.12 on the emitted SMT-LIB2) on terms
obtained by executing the real `_next/update/is_good/checksum` once on symbolic operands:
  step      forall crc:16, byte:8.  _next(crc,byte) == 8 bit-serial RFC 1662 steps            (2^24 pairs, one query)
  residue-> forall r.  update(lo(~r)); update(hi(~r)) from register r  ==> is_good
  residue<- forall r,a,b.  is_good after (a,b) from r  ==> (a,b) == (lo(~r),hi(~r))            ("true exactly when")
  checksum  forall r.  checksum == r ^ 0xFFFF ;  init: fresh register == 0xFFFF
By induction on the length (meta-argument) these give the property for every byte string. In addition the real loops of
compute_checksum / update are executed on free data for every window up to N octets and compared with the bit-serial oracle.
"""
import sys, time, subprocess, tempfile, os, json
import z3
from symx import core, runner, inject
from symx.runner import Scenario
from symx.ints import SInt, LInt, SymTable, W, sym_octet, ite
from symx.seq import SBytes
from spec import ref

PROP = "C03"


def bitstep(c, b):
    x = c ^ b
    for _ in range(8):
        x = z3.If(z3.Extract(0, 0, x) == 1, z3.LShR(x, 1) ^ 0x8408, z3.LShR(x, 1))
    return x


def second_solver(smt):
    with tempfile.NamedTemporaryFile("w", suffix=".smt2", delete=False) as fh:
        fh.write(smt); path = fh.name
    try:
        t = time.time()
        out = subprocess.run(["/usr/bin/z3", path], capture_output=True, text=True, timeout=300).stdout.strip()
        return out, time.time() - t
    except Exception as e:
        return f"error: {e}", 0.0
    finally:
        os.unlink(path)


def lemmas():
    from han.fastframecheck import FastFrameCheckSequence16 as F
    core.set_engine(core.Engine())
    real_table = F.__dict__["fast_frame_check_crc_table"]
    tbl = SymTable(list(real_table)); tbl.use_linear = False            # generic: uninterpreted function + the repository's 256 entries
    F.fast_frame_check_crc_table = tbl
    try:
        crc16, byte8, a8, b8 = z3.BitVec("crc", 16), z3.BitVec("byte", 8), z3.BitVec("a", 8), z3.BitVec("b", 8)
        crc, byte, a, b = (z3.ZeroExt(W - v.size(), v) for v in (crc16, byte8, a8, b8))
        obl = {}
        impl = F._next(SInt(crc), SInt(byte))
        obl["step"] = (term_of(impl) != bitstep(crc, byte), lambda m: {"kind": "step", "crc": m[crc16], "byte": m[byte8]})
        comp = crc ^ 0xFFFF
        f = F(); f._crc_value = SInt(crc)
        f.update(SInt(comp & 0xFF)); f.update(SInt(z3.LShR(comp, 8)))
        good = f.is_good
        obl["residue-forward"] = (z3.Not(bool_term(good)), lambda m: {"kind": "residue", "crc": m[crc16], "a": (m[crc16] ^ 0xFFFF) & 0xFF, "b": (m[crc16] ^ 0xFFFF) >> 8})
        g = F(); g._crc_value = SInt(crc); g.update(SInt(a)); g.update(SInt(b))
        obl["residue-only"] = (z3.And(bool_term(g.is_good), z3.Not(z3.And(a == (comp & 0xFF), b == z3.LShR(comp, 8)))),
                               lambda m: {"kind": "residue", "crc": m[crc16], "a": m[a8], "b": m[b8]})
        h = F(); h._crc_value = SInt(crc)
        obl["checksum"] = (term_of(h.checksum) != (crc ^ 0xFFFF), lambda m: {"kind": "init"})
        fresh = F()
        obl["init"] = (z3.BoolVal(fresh._crc_value != 0xFFFF), lambda m: {"kind": "init"})
        out = []
        pr = runner.Pristine()
        for name, (neg, wit) in obl.items():
            s = z3.Solver(); s.set("timeout", 120000); s.add(tbl.facts); s.add(neg)
            t0 = time.time(); r = s.check(); dt = time.time() - t0
            smt = "(set-logic QF_UFBV)\n" + s.sexpr() + "(check-sat)\n"
            r2, dt2 = second_solver(smt)
            status = str(r)
            rec = {"name": name, "status": status, "solver_s": round(dt + dt2, 3), "z3_5.1": f"{r} {dt:.2f}s", "z3_4.8.12": f"{r2} {dt2:.2f}s",
                   "statement": {"step": "forall crc,byte: _next(crc,byte) == bit-serial RFC1662 step", "residue-forward": "forall r: is_good after lo(~r),hi(~r)",
                                 "residue-only": "forall r,a,b: is_good => (a,b)=(lo(~r),hi(~r))", "checksum": "checksum == register ^ 0xFFFF", "init": "fresh register == 0xFFFF"}[name]}
            if "(error" in r2 or r2.split("\n")[0] != status:
                rec["status"] = "unknown" if status == "unsat" else status
                rec["detail"] = f"solvers disagree or error: {r} vs {r2[:200]}"
            if r == z3.sat:
                m = s.model()
                vals = {v: m.eval(v, model_completion=True).as_long() for v in (crc16, byte8, a8, b8)}
                w = wit(vals)
                rec["witness"] = w
                v = pr.call("judge", PROP, w).get("verdict")
                rec["confirmed"] = bool(v)
                rec["detail"] = (v or {}).get("detail", "solver witness does not reproduce")
            out.append(rec)
            print(f"[C03] lemma {name}: z3-5.1 {r} {dt:.2f}s | z3-4.8.12 {r2.splitlines()[0] if r2 else '?'} {dt2:.2f}s", flush=True)
        pr.close()
        return out
    finally:
        F.fast_frame_check_crc_table = real_table


def term_of(x):
    if isinstance(x, SInt):
        return x.t
    return z3.BitVecVal(x, W)


def bool_term(x):
    return x.t if isinstance(x, core.SBool) else z3.BoolVal(bool(x))


def windows_path(n_max):
    def path(eng, ctx):
        from han.fastframecheck import FastFrameCheckSequence16 as F
        for n in [eng.pick(n_max + 1)]:
            octs = [sym_octet(f"d{i}") for i in range(n)]
            data = SBytes(octs)
            for start in range(0, n + 1):
                for length in range(0, n - start + 1):
                    got = F.compute_checksum(data, start, length)
                    exp = ref.fcs16(octs[start:start + length], ite)
                    ctx.check(got == exp, f"compute_checksum window n={n} start={start} length={length}",
                              witness={"kind": "window", "data": data, "start": start, "length": length})
            if n >= 1:
                # the same buffer object, changed in place between two calls with the same window (no result may be remembered)
                from symx.seq import SByteArray
                buf = SByteArray(list(octs))
                first = F.compute_checksum(buf, 0, n)
                other = sym_octet("e0")
                buf[0] = other
                again = F.compute_checksum(buf, 0, n)
                ctx.check(again == ref.fcs16([other] + octs[1:], ite), f"compute_checksum on a buffer changed in place, n={n}",
                          witness={"kind": "mutated", "data": data, "changed": SBytes([other] + octs[1:]), "length": n})
            f = F()
            for o in octs:
                f.update(o)
            ctx.check(f.checksum == ref.fcs16(octs, ite), f"incremental checksum n={n}", witness={"kind": "window", "data": data, "start": 0, "length": n})
            if n >= 2:
                e = ref.fcs16(octs[:-2], ite)
                spec = ((e & 0xFF) == octs[-2]) & ((e >> 8) == octs[-1])
                ctx.check_iff(f.is_good, spec, f"is_good <=> trailer is the FCS, n={n}", witness={"kind": "window", "data": data, "start": 0, "length": n})
            if n >= 2:
                ctx.witness = {"kind": "window", "data": data, "start": 1 if n > 1 else 0, "length": max(n - 2, 0)}
                f2 = F()
                for o in octs:
                    f2.update(o)
                ctx.obs = [F.compute_checksum(data, ctx.witness["start"], ctx.witness["length"]), f2.checksum, f2.is_good]
        ctx.nontrivial()
    return path


def main():
    tier = runner.tier_from_argv()
    n_max = 8 if tier == "quick" else 16
    t0 = time.time()
    lem = lemmas()
    scen = [Scenario(f"windows n<={n_max}", windows_path(n_max), bounds={"data_octets_max": n_max, "windows": "all (start,length)", "free": "every data octet"},
                     domains=("hdlc",), frontier=4, workers=1, assumptions=inject.assumptions(("hdlc",)))]
    code = runner.run_check(PROP, "proof", scenarios=scen, tier=tier, technique="closed SMT lemmas (QF_UFBV) over terms produced by executing the real methods once + path-wise symbolic execution of the real loops on free data (GF(2)-affine normal form)",
                            assumptions=["lemma table model: uninterpreted function constrained by the 256 entries the repository computed at import",
                                         "induction on message length is a meta-argument (step lemma + residue lemma), not machine-checked"],
                            outside=[f"compute_checksum windows on data longer than {n_max} octets are covered only through the induction argument"],
                            lemma_results=lem, trusted_base=["z3 5.1.0", "z3 4.8.12", "symx executor (proxies SInt/LInt/SymTable)", "CPython int semantics"],
                            checker_cmd="bin/vcheck C03 --tier " + tier)
    return code


if __name__ == "__main__":
    sys.exit(main())
