"""C08 — Kaifa lists decode to the transmitted values with the documented scaling (positional lists of 1, 9, 13, 14, 18 elements and
the OBIS-tagged Swedish list); every register, text and clock free at once."""
import sys
from symx import runner, inject
from symx.runner import Scenario
from checks import decoders as D
from spec import cosem_ref as CR

PROP = "C08"


def layouts():
    out = []
    for name in ("no_list_1", "no_list_2", "no_list_3", "se_list"):
        out.append((name, D.fixture("kaifa", name)))
    for name, label in (("no_list_2", "list 2 single phase (9 elements)"), ("no_list_3", "list 3 single phase (14 elements)")):
        o = D.fixture("kaifa", name)
        _, pos = CR.split_frame(o)
        out.append((label, D.drop_phases(o, pos, "kaifa")))
    # identification strings of other lengths (1, 12 = the length of a date-time, 16) in the positional and the OBIS-tagged list
    for name in ("no_list_2", "se_list"):
        for n in (1, 12, 16):
            o = D.fixture("kaifa", name)
            _, pos = CR.split_frame(o)
            root = CR.walk(o, pos)
            kids = D.children_octets(o, root)
            idx = 1 if name == "no_list_2" else 3           # the meter-id string
            kids[idx] = [0x09, n] + [0x41 + (i % 26) for i in range(n)]
            out.append((f"{name} with a {n}-character meter id", D.rebuild(o, pos, kids, 0x02)))
    return out


def path_for(label, octets, free_clocks):
    def path(eng, ctx):
        o = D.make_holes(eng, octets, "kaifa", "frame", free_clocks=free_clocks)
        D.decode_and_compare(eng, ctx, "kaifa", o, "frame", label)
    return path


def scenarios(tier):
    A = inject.assumptions(("decoders",))
    out = []
    for label, o in layouts():
        n = len(CR.walk(o, CR.split_frame(o)[1]).children)
        out.append(Scenario(f"kaifa {label}: all registers, texts and clocks free", path_for(label, o, True),
                            bounds={"layout": label, "items": n, "free": "every octet of every 32-bit register; every character of every text (printable ASCII); every date-time (APDU clock and list clock independently, valid per C10's domain)",
                                    "forms": "frame and bare body"}, domains=("decoders",), engine_opts={"slicing": True}, frontier=3, workers=4, assumptions=A, replay_cap=40))
    return out


def main():
    tier = runner.tier_from_argv()
    return runner.run_check(PROP, "model_checking", scenarios(tier), tier,
                            technique="symbolic execution of the real construct grammar + normalisation on documented lists whose value octets are all z3 variables; decoded dictionary compared with the reference dictionary per path (floats in the relative-error model, sat answers replayed with real floats)",
                            assumptions=["float arithmetic in the standard relative-error model (|delta| <= 2^-53 per operation, exact constants, correctly rounded float()/round()); violations are replayed with real floats before they count"],
                            outside=["layouts other than the documented ones (1, 9, 13, 14, 18 positional items, OBIS-tagged list)", "non-ASCII text"])


if __name__ == "__main__":
    sys.exit(main())
