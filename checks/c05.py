"""C05 — P1: every readout on a clean stream is delivered once, byte-identical and valid, however it is chunked and however long
the stream is. Small scale: spec-built readouts with free digits (checksum = term over them), optional leading readout tail, all
1- and 2-cut splittings and line-by-line. Long histories: concrete-length streams past the 8191-octet buffer guard with chunk sizes
that never fall between two readouts; contents of the last readouts free."""
import sys, itertools
import z3
from symx import core, runner, inject
from symx.runner import Scenario
from symx.seq import SBytes
from symx.ints import SInt, sym_octet
from checks import p1_common as PC
from spec import ref, ref_p1

PROP = "C05"


def small_path(n_free, two_cuts, tail):
    def path(eng, ctx):
        d = [PC.free_digit(f"d{i}") for i in range(n_free)]
        r1 = PC.build_readout(PC.IDENT, [list(b"1-0:1.8.0(0012") + d[:1] + list(b"*kWh)")], checksum=True)
        r2 = PC.build_readout(PC.IDENT2, [list(b"1-0:1.7.0(00.3") + (d[1:2] or [0x33]) + list(b"*kW)"), list(b"1-0:32.7.0(231.9*V)")], checksum=False)
        r3 = ref_p1.build_readout(b"/LGF5E360", [], checksum=True) if n_free < 3 else PC.build_readout(PC.IDENT, [list(b"0-0:96.1.0(") + d[2:] + list(b")")], checksum=True)
        lead = list(b"2.7.0(0000.000*kW)\r\n!A1B2\r\n") if tail else []
        expect = [r1, r2, r3]
        stream = SBytes(lead + r1 + r2 + r3)
        n = len(stream)
        cuts = [()] + [(c,) for c in range(1, n)]
        if two_cuts:
            cuts += [(a, b) for a in range(2, n, 5) for b in range(a + 1, n, 7)]
        # line by line
        lf = [i + 1 for i, x in enumerate(stream) if (x == 10 if isinstance(x, int) else False)]
        cuts.append(tuple(p for p in lf if p < n))
        PC.expect_delivery(eng, ctx, stream, expect, cuts, f"small tail={tail}")
    return path


def make_readout(i, size):
    """concrete readout #i of exactly `size` octets (size >= 60): data lines plus an id line padded to the octet"""
    ident = b"/ADN9 6534" if i % 2 else b"/LGF5E360"
    lines = [b"1-0:1.8.0(%08d*kWh)" % (i * 37 % 10 ** 8)]
    base = len(ref_p1.build_readout(ident, lines))
    while base + 24 + 14 <= size:
        lines.append(b"1-0:32.7.0(%010d*V)" % (i + len(lines)))
        base = len(ref_p1.build_readout(ident, lines))
    pad = size - base
    assert pad >= 14, (size, base)
    lines.append(b"0-0:96.1.0(" + b"7" * (pad - 14) + b")")
    r = ref_p1.build_readout(ident, lines)
    assert len(r) == size
    return r


def long_path(size, chunk, offset, total, n_free):
    """readouts of ~size octets back to back up to `total` octets; fed as one chunk of `offset` octets then chunks of `chunk` octets.
    The last n_free readouts carry one free digit each (their checksum is a term)."""
    def path(eng, ctx):
        rs = []
        tot = 0
        i = 0
        while tot < total:
            r = make_readout(i, size)
            rs.append(r); tot += len(r); i += 1
        for k in range(1, n_free + 1):
            idx = len(rs) - k
            d = PC.free_digit(f"d{k}")
            proto = make_readout(idx, size)
            j = proto.index(ord("(")) + 3                      # a digit of the first value
            body = list(proto[:proto.index(0x21) + 1])
            body[j] = d
            c = PC.sym_crc16(body)
            rs[idx] = body + [PC.hexchar_of_nibble((c >> s) & 0xF) for s in (12, 8, 4, 0)] + PC.CRLF
        stream = [c for r in rs for c in r]
        n = len(stream)
        cuts = tuple(range(offset, n, chunk)) if offset else tuple(range(chunk, n, chunk))
        PC.expect_delivery(eng, ctx, SBytes(stream), rs, [cuts], f"long size~{size} chunk={chunk} offset={offset} total={n}")
        ctx.count("n:readouts", len(rs))
    return path


def scenarios(tier):
    q = tier == "quick"
    A = inject.assumptions(("p1",))
    out = [Scenario("small: 3 readouts, 2 free digits, all single cuts + line-by-line", small_path(2, False, False),
                    bounds={"readouts": 3, "free": "2 digits (checksum of readout 1 is a term over them)", "splittings": "every single cut, line by line"}, domains=("p1",), frontier=4, assumptions=A, replay_cap=40),
           Scenario("small: leading readout tail + 3 readouts, single cuts" + ("" if q else " + cut pairs"), small_path(2 if q else 3, not q, True),
                    bounds={"readouts": 3, "leading": "tail of a readout (reader joined mid-transmission)", "free_digits": 2 if q else 3, "splittings": "every single cut" + ("" if q else ", a grid of cut pairs") + ", line by line"},
                    domains=("p1",), frontier=4, assumptions=A, replay_cap=40)]
    sweep = [(104, 104, 20), (104, 103, 0), (256, 257, 0), (1000, 999, 7), (3000, 7000, 11), (4800, 1000, 0)] if q else \
            [(s, c, o) for s in (60, 104, 256, 1000) for c, o in ((s, 20), (s - 1, 0), (s + 1, 0), (7, 0), (64, 0), (4096, 1), (1000, 0), (6000, 0), (7000, 11), (8190, 3), (8191, 0), (8192, 5), (10000, 0))] + \
            [(s, c, o) for s in (3000, 4500, 4800, 6000, 7500) for c, o in ((s, 20), (s - 1, 0), (64, 0), (1000, 0), (7000, 11), (8191, 0), (10000, 0))]
    for s, c, o in sweep:
        total = max(3 * 8192, 14 * s)          # at least 14 readouts, so that every phase of chunk vs readout boundaries occurs
        if not q and c in (7,) and s > 300:
            continue
        out.append(Scenario(f"long history: readouts ~{s} octets, chunks of {c} from offset {o}, {total} octets", long_path(s, c, o, total, 1 if (q or s > 256) else 2),
                            bounds={"stream_octets": f">= {total}", "readout_size": s, "chunk": c, "first_chunk": o or c, "free": "one digit in the last readout (thorough, readouts <= 256 octets: in each of the last two)"},
                            domains=("p1",), frontier=3, workers=1, assumptions=A, replay_cap=6))
    return out


def main():
    tier = runner.tier_from_argv()
    return runner.run_check(PROP, "model_checking", scenarios(tier), tier,
                            technique="path-wise symbolic execution of the real ModeDReader on spec-built readouts with free digits (CRC16 as GF(2)-affine term), exact delivery decided per path by z3; "
                                      "long concrete-length histories cross the 8191-octet buffer guard",
                            outside=["stream lengths, readout sizes and chunk sizes are enumerated (the listed sweep), not solved for", "streams longer than 3 x 8192 octets", "more free characters than stated"])


if __name__ == "__main__":
    sys.exit(main())
