"""C12 — AutoDecoder picks a decoder that accepts the message, across any history.
One-step lemma (covers every history): the decoder table is replaced by stubs whose accept/reject for THIS payload is a free Boolean
each (raising ConstructError or ValueError by free choice), the remembered index is free in {None, 0..6}; the real
decode_message_payload / decode_message run on it. Own-decoder claim: the real decoders run on documented lists with free holes through a
fresh AutoDecoder and one whose history is the same meter/form."""
import sys
import z3, construct
from symx import core, runner, inject
from symx.core import SBool, PathAbort, EngineLimit, EngineFault
from symx.runner import Scenario
from symx.ints import SInt, concretize
from symx.seq import SBytes
from checks import decoders as D
from spec import cosem_ref as CR

PROP = "C12"
ENGINE_EXC = (PathAbort, EngineLimit, EngineFault) + core.HARNESS_SIDE
NAMES = ["Aidon_frame", "Kaifa_frame", "Kamstrup_frame", "P1", "Aidon_notification_body", "Kaifa_notification_body", "Kamstrup_notification_body"]


def run_entry(d, via, common, hdlc, dlde):
    if via == "payload":
        return d.decode_message_payload(b"x")
    if via == "dlms":
        return d.decode_message(common.DlmsMessage(b"xxxxxx"))
    if via == "hdlc":
        fr = hdlc.HdlcFrame()
        for o in bytes.fromhex("a00a0321137a24e67e7e")[:10]:
            fr.append(o)
        return d.decode_message(fr) if fr.payload else None
    return d.decode_message(dlde.DataReadout(b"/LGF5E360\r\n1-0:1.8.0(1*kWh)\r\n!\r\n"))


def lemma_path(via):
    def path(eng, ctx):
        import han.autodecoder as AD, han.dlde as dlde, han.common as common, han.hdlc as hdlc
        orig = list(AD.AutoDecoder.payload_decoder_functions)
        orig_p1 = dlde.decode_p1_readout
        names = [n for n, _ in orig]
        acc = [SBool(z3.Bool(f"acc{i}")) for i in range(len(names))]
        kind = [SBool(z3.Bool(f"verr{i}")) for i in range(len(names))]
        empty = [SBool(z3.Bool(f"empty{i}")) for i in range(len(names))]
        calls = []

        def result_of(i):
            return {} if bool(empty[i]) else {"decoder": i}          # an accepting decoder may legitimately return an empty dictionary

        def mk(i):
            def dec(payload):
                calls.append(i)
                if acc[i]:
                    return result_of(i)
                raise (ValueError("no") if kind[i] else construct.ConstructError("no"))
            return dec
        try:
            AD.AutoDecoder.payload_decoder_functions = [(names[i], mk(i)) for i in range(len(names))]
            p1_idx = names.index("P1") if "P1" in names else None
            if p1_idx is not None:
                dlde.decode_p1_readout = mk(p1_idx)
            d = AD.AutoDecoder()
            pv = z3.Int("prev")
            eng.add(z3.And(pv >= -1, pv <= len(names) - 1))
            prev = concretize(SInt(pv))
            d._AutoDecoder__previous_success = None if prev < 0 else prev
            w = {"sub": "lemma", "prev": prev, "acc": acc, "verr": kind, "empty": empty, "via": via}
            ctx.witness = w
            try:
                r = run_entry(d, via, common, hdlc, dlde)
            except ENGINE_EXC:
                raise
            except Exception as e:
                ctx.obs = None
                ctx.violation(f"{via}: {type(e).__name__} escapes AutoDecoder (prev={prev})", w)
                return
            ctx.obs = [r, d.previous_success_decoder]
            start = 0 if prev < 0 else prev
            order = [(start + i) % len(names) for i in range(len(names))]
            first = next((i for i in order if bool(acc[i])), None)
            ctx.nontrivial()
            ctx.reach("accepted" if first is not None else "nobody")
            if first is None:
                ok = r is None and d.previous_success_decoder == (None if prev < 0 else names[prev])
                ctx.check(z3.BoolVal(ok), f"{via}: nobody accepts -> None and remembered decoder unchanged (prev={prev})", w)
            else:
                ok = r is not None and r == result_of(first) and d.previous_success_decoder == names[first]
                ctx.check(z3.BoolVal(ok), f"{via}: result of the first accepting decoder in cyclic order from the remembered one (prev={prev}, first={first}, got={r}, remembered={d.previous_success_decoder})", w)
        finally:
            AD.AutoDecoder.payload_decoder_functions = orig
            dlde.decode_p1_readout = orig_p1
    return path


def history_path(n_calls):
    """histories of n_calls payloads drawn from two payloads A/B, THREE stub decoders whose accept/reject per payload is free:
    catches state other than the remembered index (caches keyed on the payload, results kept from earlier calls, ...)"""
    def path(eng, ctx):
        import han.autodecoder as AD
        orig = list(AD.AutoDecoder.payload_decoder_functions)
        names = ["D0", "D1", "D2"]
        acc = {(i, p): SBool(z3.Bool(f"acc{i}{p}")) for i in range(3) for p in "AB"}
        verr = [SBool(z3.Bool(f"verr{i}")) for i in range(3)]

        def mk(i):
            def dec(payload):
                p = "A" if payload == b"A-payload" else "B"
                if acc[(i, p)]:
                    return {"decoder": i, "payload": p}
                raise (ValueError("no") if verr[i] else construct.ConstructError("no"))
            return dec
        try:
            AD.AutoDecoder.payload_decoder_functions = [(names[i], mk(i)) for i in range(3)]
            d = AD.AutoDecoder()
            seq = ["AB"[eng.pick(2)] for _ in range(n_calls)]
            w = {"sub": "history", "seq": seq, "acc": {f"{i}{p}": acc[(i, p)] for i in range(3) for p in "AB"}, "verr": verr}
            ctx.witness = w
            ctx.nontrivial()
            prev, obs = None, []
            for k, p in enumerate(seq):
                try:
                    r = d.decode_message_payload(b"A-payload" if p == "A" else b"B-payload")
                except ENGINE_EXC:
                    raise
                except Exception as e:
                    ctx.violation(f"{type(e).__name__} escapes AutoDecoder at call {k}", w)
                    return
                obs.append([r, d.previous_success_decoder])
                start = prev or 0
                first = next((i for i in [(start + j) % 3 for j in range(3)] if bool(acc[(i, p)])), None)
                if first is None:
                    ok = r is None and d.previous_success_decoder == (None if prev is None else names[prev])
                else:
                    ok = r == {"decoder": first, "payload": p} and d.previous_success_decoder == names[first]
                    prev = first
                if not ctx.check(z3.BoolVal(ok), f"call {k} of {''.join(seq)}: result {r}, remembered {d.previous_success_decoder}", w):
                    return
            ctx.obs = obs
        finally:
            AD.AutoDecoder.payload_decoder_functions = orig
    return path


OWN = {("aidon", "frame"): "Aidon_frame", ("kaifa", "frame"): "Kaifa_frame", ("kamstrup", "frame"): "Kamstrup_frame",
       ("aidon", "body"): "Aidon_notification_body", ("kaifa", "body"): "Kaifa_notification_body", ("kamstrup", "body"): "Kamstrup_notification_body"}


def own_path(meter, name, form, n_free):
    """genuine list, a window of registers free (pick which), through a fresh AutoDecoder and one that remembers the own decoder"""
    def path(eng, ctx):
        import han.autodecoder as AD
        o = D.fixture(meter, name)
        if form == "body":
            o = o[CR.split_frame(o)[1]:]
        # free: the value octets of ONE element (chosen by a harness-level pick)
        root = CR.walk(o, CR.split_frame(o)[1] if form == "frame" else 0, greedy=(meter == "kamstrup"))
        leaves = []

        def visit(n):
            if n.kind in ("array", "struct"):
                for k in n.children:
                    visit(k)
            elif n.kind in ("u32", "u16", "i16"):
                leaves.append(n)
        visit(root)
        from symx.ints import sym_octet
        o = list(o)
        if leaves:
            j = eng.pick(min(len(leaves), n_free))
            lf = leaves[(j * max(1, len(leaves) // n_free)) % len(leaves)]
            o[lf.vstart:lf.end] = [sym_octet(f"r{i}", "int") for i in range(lf.end - lf.vstart)]
        own = OWN[(meter, form)]
        for prev in (None, NAMES.index(own)):
            d = AD.AutoDecoder()
            d._AutoDecoder__previous_success = prev
            w = {"data": SBytes(o), "prev": prev, "via": "payload", "own": own, "meter": meter, "form": form}
            ctx.intend(w)
            if ctx.witness is None:
                ctx.witness = w
            try:
                res = d.decode_message_payload(SBytes(o))
            except ENGINE_EXC:
                raise
            except Exception as e:
                ctx.violation(f"{type(e).__name__} escaped AutoDecoder on a genuine {own} message", w)
                return
            if ctx.obs is None:
                ctx.obs = [None if res is None else sorted(res), d.previous_success_decoder]
            ctx.nontrivial()
            if d.previous_success_decoder != own:
                ctx.violation(f"genuine {own} message decoded by {d.previous_success_decoder} (prev={prev})", w)
                return
            exp = CR.expected(meter, o, form, D.ite, D.is_ct_sym)
            if not D.compare(ctx, exp, res, w, f"{own} via AutoDecoder prev={prev}"):
                return
    return path


def p1_own_path():
    def path(eng, ctx):
        import han.autodecoder as AD
        from checks import p1_common as PC
        d0 = PC.free_digit("d")
        block = list(b"1-0:1.8.0(00012") + [d0] + list(b".5*kWh)\r\n1-0:32.7.0(231.9*V)\r\n")
        for prev in (None, 3):
            d = AD.AutoDecoder()
            d._AutoDecoder__previous_success = prev
            w = {"data": SBytes(block), "prev": prev, "via": "payload", "own": "P1"}
            ctx.intend(w)
            if ctx.witness is None:
                ctx.witness = w
            res = d.decode_message_payload(SBytes(block))
            if ctx.obs is None:
                ctx.obs = [None if res is None else sorted(res), d.previous_success_decoder]
            ctx.nontrivial()
            if d.previous_success_decoder != "P1" or res is None:
                ctx.violation(f"genuine P1 block decoded by {d.previous_success_decoder}", w)
                return
            ctx.check(True, "P1 block decoded by the P1 decoder", w)
    return path


def scenarios(tier):
    q = tier == "quick"
    A = ["decoder table replaced by stub decoders with free accept/reject and free exception kind (lemma scenarios only)"]
    out = [Scenario(f"lemma: one call from any remembered decoder, via {via}", lemma_path(via),
                    bounds={"remembered_decoder": "None | 0..6 (free)", "accept/reject": "free per decoder (2^7)", "rejecting exception": "ConstructError | ValueError (free per decoder)", "entry point": via},
                    domains=("mc",), frontier=5, assumptions=A, must_reach=("assert", "accepted", "nobody")) for via in ("payload", "dlms", "hdlc", "readout")]
    out.append(Scenario(f"histories of {3 if q else 4} calls over two payloads with three stub decoders", history_path(3 if q else 4),
                        bounds={"calls": 3 if q else 4, "payloads": "A | B per call", "decoders": "3 stubs, accept/reject free per (decoder, payload)"}, domains=("mc",), frontier=5, assumptions=A, replay_cap=150))
    layouts = [("aidon", "no_list_2"), ("kaifa", "no_list_1"), ("kaifa", "no_list_2"), ("kaifa", "se_list"), ("kamstrup", "no_list_2_three_phase")] if q else \
        [("aidon", n) for n in ("no_list_1", "no_list_2", "no_list_3", "se_list")] + [("kaifa", n) for n in ("no_list_1", "no_list_2", "no_list_3", "se_list")] + \
        [("kamstrup", n) for n in ("no_list_1_three_phase", "no_list_2_single_phase", "no_list_2_three_phase", "no_list_1_single_phase_real_sample", "no_list_2_single_phase_real_sample", "se_list_real_sample")]
    AD_ = inject.assumptions(("decoders", "p1"))
    for meter, name in layouts:
        for form in ("frame", "body"):
            out.append(Scenario(f"own decoder: {meter} {name} {form}, one register free at a time", own_path(meter, name, form, 3 if q else 8),
                                bounds={"layout": f"{meter} {name}", "form": form, "free": "all octets of one register (each of up to 3/8 registers in turn)", "history": "fresh AutoDecoder | remembers the own decoder"},
                                domains=("decoders", "p1"), frontier=4, workers=8, assumptions=AD_, replay_cap=60, engine_opts={"path_time_limit": 60}))
    out.append(Scenario("own decoder: P1 data block with a free digit", p1_own_path(), bounds={"block": "two data lines, one free digit"}, domains=("decoders", "p1"), frontier=3, workers=2, assumptions=AD_, replay_cap=20))
    return out


def main():
    tier = runner.tier_from_argv()
    return runner.run_check(PROP, "model_checking", scenarios(tier), tier,
                            technique="one-step symbolic lemma on the real AutoDecoder loop with stub decoders (free accept/reject Booleans, free remembered index) + symbolic execution of all real decoders on documented lists through AutoDecoder (z3 per path)",
                            outside=["own-decoder claim: more than one register free at a time; layouts other than the captured ones", "the lemma abstracts decoders to accept/reject: values are covered by C07-C09/C11"])


if __name__ == "__main__":
    sys.exit(main())
