"""C18 — reconnect pacing: capped exponential back-off and the loss breaker.
Strategy lemma (unbounded n, max_delay): one failure()/reset()/current_delay_sec executed on the real object from the symbolic
pre-state delay = 0 or delay = pow2(n-1) (pow2 uninterpreted with pow2(n) = 2*pow2(n-1)). Bounded: every failure/reset sequence of
<= 14 calls with a free max_delay. Manager: traces of the real connect_loop on the virtual-time loop with free outcomes, latencies,
lifetimes, threshold, sleep and max_delay."""
import sys, time
import z3
from symx import core, runner, inject
from symx.core import SBool
from symx.runner import Scenario
from symx.ints import SInt
from checks import mc_common as M
from spec import c17_trace as CT

PROP = "C18"


def lemma_path():
    """inductive step: from any state satisfying the invariant, each operation re-establishes it and reports min(2^(n-1), max_delay)"""
    def path(eng, ctx):
        import han.meter_connection as MC
        n, Mx, d = z3.Int("n"), z3.Int("max_delay"), z3.Int("delay")
        pow2 = z3.Function("pow2", z3.IntSort(), z3.IntSort())
        eng.add(z3.And(n >= 0, Mx >= 1))
        eng.add(z3.If(n == 0, d == 0, d == pow2(n - 1)))                       # invariant I(n)
        eng.add(z3.And(pow2(0) == 1, pow2(n) == 2 * pow2(n - 1), pow2(n - 1) >= 1, pow2(n) >= 1))   # instances of the definition of 2^k
        b = MC.ExponentialBackOff()
        b._delay, b.max_delay = SInt(d), SInt(Mx)
        op = eng.pick(3)
        ctx.witness = None
        ctx.nontrivial()

        def small_witness(cond):
            """a replayable counterexample: n <= 40 and max_delay <= 3600 with pow2 pinned to the real powers of two there"""
            def build(_m):
                s2 = z3.Solver()
                s2.set("timeout", 20000)
                s2.add(eng.solver.assertions())
                s2.add(z3.Not(cond.t if isinstance(cond, SBool) else cond), n <= 40, Mx <= 3600)
                s2.add([pow2(k) == 2 ** k for k in range(0, 42)])
                if s2.check() != z3.sat:
                    return None
                m2 = s2.model()
                nn, mm = m2.eval(n, model_completion=True).as_long(), m2.eval(Mx, model_completion=True).as_long()
                return {"sub": "strategy", "max_delay": mm, "ops": ["f"] * nn + (["f"] if op == 0 else ["r"] if op == 1 else [])}
            return build

        def chk(cond, what):
            return ctx.check(cond, what, witness=small_witness(cond))
        if op == 0:
            b.failure()
            nd = b._delay
            chk(nd == SInt(pow2(n)), "failure(): invariant I(n+1): delay == 2^n")
            rep = b.current_delay_sec
            chk(rep == SInt(z3.If(pow2(n) < Mx, pow2(n), Mx)), "after failure(): reported == min(2^n, max_delay)")
        elif op == 1:
            b.reset()
            chk(b._delay == 0, "reset(): invariant I(0)")
            chk(b.current_delay_sec == 0, "after reset(): reported == 0")
        else:
            rep = b.current_delay_sec
            chk(rep == SInt(z3.If(n == 0, 0, z3.If(pow2(n - 1) < Mx, pow2(n - 1), Mx))), "current_delay_sec == min(2^(n-1), max_delay) (0 when n == 0)")
    return path


def sequences_path(length):
    def path(eng, ctx):
        import han.meter_connection as MC
        Mx = z3.Int("max_delay")
        eng.add(z3.And(Mx >= 1, Mx <= 3600))
        b = MC.ExponentialBackOff()
        b.max_delay = SInt(Mx)
        ops, n = [], 0
        w = {"sub": "strategy", "max_delay": SInt(Mx), "ops": ops}
        ctx.witness = w
        obs = []
        for k in range(length):
            op = eng.pick(2)
            if op == 0:
                b.failure(); n += 1; ops.append("f")
            else:
                b.reset(); n = 0; ops.append("r")
            rep = b.current_delay_sec
            obs.append(rep)
            exp = 0 if n == 0 else SInt(z3.If(2 ** (n - 1) < Mx, z3.IntVal(2 ** (n - 1)), Mx))
            if not ctx.check(rep == exp, f"after {''.join(ops)}: reported == min(2^(n-1), max_delay)", dict(w, ops=list(ops))):
                return
        ctx.obs = obs
        ctx.nontrivial()
    return path


def manager_path(K, max_loss, free_cfg):
    def path(eng, ctx):
        cfg = {}
        if free_cfg:
            for name in ("max_delay", "connection_lost_back_off_threshold", "connection_lost_back_off_sleep_sec"):
                v = z3.Int(name)
                eng.add(z3.And(v >= 1, v <= 3600))
                cfg[name] = SInt(v)
        else:
            cfg = {"max_delay": 60, "connection_lost_back_off_threshold": 5, "connection_lost_back_off_sleep_sec": 5}

        def configure(mgr):
            mgr.back_off_connect_error.max_delay = cfg["max_delay"]
            mgr.connection_lost_back_off_threshold = cfg["connection_lost_back_off_threshold"]
            mgr.connection_lost_back_off_sleep_sec = cfg["connection_lost_back_off_sleep_sec"]
        r = M.run_manager(eng, K, T_max=None, max_loss=max_loss, configure=configure, lat_max=2, life_max=6)
        w = M.witness(r, K, extra=dict(cfg))
        ctx.witness, ctx.obs = w, M.obs_of(r["trace"])
        ctx.nontrivial()

        def holds(c):
            if isinstance(c, bool):
                return c
            return eng.valid(c)[0]

        def mn(a, b):
            if isinstance(b, SInt):
                return SInt(z3.If(a < b.t, z3.IntVal(a), b.t))
            return min(a, b)

        def mx(a, b):
            ta = a.t if isinstance(a, SInt) else z3.IntVal(a)
            tb = b.t if isinstance(b, SInt) else z3.IntVal(b)
            if isinstance(a, int) and isinstance(b, int):
                return max(a, b)
            return SInt(z3.If(ta > tb, ta, tb))
        res = CT.analyse_c18(r["trace"], cfg["max_delay"], cfg["connection_lost_back_off_threshold"], cfg["connection_lost_back_off_sleep_sec"], M.SCALE, holds, mn, mx)
        if res:
            ctx.violation(f"{res[0][0]}: {res[0][1]}", w)
        else:
            ctx.check(True, "pacing assertions on the trace", w)
    return path


def two_managers_path(K):
    """two ConnectionManager objects on one loop: A's attempts all fail, B connects (at a free instant) and stays up.
    A's pacing must be what it is without B - managers must not share back-off state."""
    def path(eng, ctx):
        names2 = {}

        def second(name, i, param):
            if name == "ok":
                return 1
            if name == "lat":
                names2[f"lat{i}"] = param(f"b_lat{i}", 0, 9)
                return names2[f"lat{i}"]
            return 0
        r = M.run_manager(eng, K, T_max=None, max_loss=0, lat_max=1, fixed={f"ok{i}": 0 for i in range(K + 1)}, second=second)
        w = M.witness(r, K, extra={"max_delay": 60, "connection_lost_back_off_threshold": 5, "connection_lost_back_off_sleep_sec": 5})
        for k_ in list(w["params"]):
            if k_.startswith("b_"):
                w["params"].pop(k_)
        w["params"].update({f"ok{i}": 0 for i in range(K + 1)})
        w["second"] = {"ok0": 1, **{k_: v for k_, v in names2.items()}}
        ctx.witness, ctx.obs = w, M.obs_of(r["trace"])
        ctx.nontrivial()

        def holds(c):
            return c if isinstance(c, bool) else eng.valid(c)[0]
        res = CT.analyse_c18(r["trace"], 60, 5, 5, M.SCALE, holds, min, max)
        if res:
            ctx.violation(f"{res[0][0]}: {res[0][1]} (a second manager connected meanwhile)", w)
        else:
            ctx.check(True, "pacing of manager A with manager B alive", w)
    return path


def scenarios(tier):
    q = tier == "quick"
    A = inject.assumptions(("mc",)) + ["event loop = symx.vloop.VLoop; datetime.utcnow in han.meter_connection = virtual clock", "pow2 is uninterpreted with the instances pow2(0)=1, pow2(n)=2*pow2(n-1) (lemma)"]
    return [Scenario(f"two managers on one loop: A fails {5 if q else 7} times while B connects at a free instant", two_managers_path(5 if q else 7),
                     bounds={"manager A": f"{5 if q else 7} failing attempts, latency 0..1 s", "manager B": "one successful attempt with latency 0..9 s, stays connected"}, domains=("mc",), frontier=4, assumptions=A, replay_cap=100),
            Scenario("strategy lemma: one operation from an arbitrary invariant state (n, max_delay unbounded)", lemma_path(),
                     bounds={"n": "any integer >= 0", "max_delay": "any integer >= 1", "operations": "failure | reset | current_delay_sec"}, domains=("mc",), frontier=2, workers=1, assumptions=A),
            Scenario(f"strategy: every failure/reset sequence of {10 if q else 14} calls, free max_delay", sequences_path(10 if q else 14),
                     bounds={"calls": 10 if q else 14, "max_delay": "1..3600 (free)", "choice per step": "failure | reset"}, domains=("mc",), frontier=5, assumptions=A, replay_cap=100),
            Scenario(f"manager, default configuration: <= {6 if q else 8} attempts, <= 3 losses", manager_path(6 if q else 8, 3, False),
                     bounds={"attempts": 6 if q else 8, "losses": 3, "latency_s": "0..2", "lifetime_s": "0..6", "configuration": "max_delay 60, threshold 5, sleep 5"}, domains=("mc",), frontier=5, assumptions=A, replay_cap=150),
            Scenario(f"manager, free max_delay/threshold/sleep in 1..3600: <= {4 if q else 6} attempts, <= 2 losses", manager_path(4 if q else 6, 2, True),
                     bounds={"attempts": 4 if q else 6, "losses": 2, "max_delay/threshold/sleep": "free integers 1..3600"}, domains=("mc",), frontier=5, assumptions=A, replay_cap=150),
            Scenario(f"manager, free max_delay/threshold/sleep in 1..3600: <= {3 if q else 4} attempts, <= 3 losses (a burst of losses)", manager_path(3 if q else 4, 3, True),
                     bounds={"attempts": 3 if q else 4, "losses": 3, "max_delay/threshold/sleep": "free integers 1..3600"}, domains=("mc",), frontier=5, assumptions=A, replay_cap=150)]


def main():
    tier = runner.tier_from_argv()
    return runner.run_check(PROP, "model_checking", scenarios(tier), tier,
                            technique="inductive-step SMT lemma on the real ExponentialBackOff methods (unbounded n, max_delay) + bounded symbolic call sequences + symbolic execution of connect_loop on a virtual-time loop with symbolic timing/configuration (z3)",
                            outside=["more attempts/losses than stated", "scheduling slack of a real clock (virtual time has none)", "configuration values above 3600"])


if __name__ == "__main__":
    sys.exit(main())
