"""C16 — readers resynchronise after noise with bounded loss; a discarded/invalid frame never corrupts the one that follows.
HDLC part: free noise (and structured noise: truncated frame, abort sequence, too-short frame, complete-but-invalid frame) followed by
spec-built frames; P1 part: free noise / readout-looking prefixes followed by spec-built readouts."""
import sys
import z3
from symx import core, runner, inject
from symx.core import SBool, PathAbort
from symx.runner import Scenario
from symx.seq import SBytes
from symx.ints import SInt, sym_octet
from checks import hdlc_common as HC
from spec import ref

PROP = "C16"

F = [ref.build_frame([0x03], [0x21], 0x13, [0xE6, 0xE7, 0x00]), ref.build_frame([0x02, 0x23], [0x21], 0x10, [0x7D, 0x5E]),
     ref.build_frame([0x03], [0x21], 0x32, [0x0F, 0x40])]


def frames_with_free_payload(n_free):
    """three clean frames; the first n_free of them carry one free payload octet"""
    out = []
    for i in range(3):
        if i < n_free:
            out.append(HC.build_frame([0x03], [0x21], 0x13 + i, [sym_octet(f"q{i}"), 0x40 + i]))
        else:
            out.append(list(F[i]))
    return out


def expect_assertions(eng, ctx, cfg, stream, must, clean, cutsets, label):
    """must: frames (term lists) that must be delivered valid, in order; clean: all clean frames (none may come out damaged)"""
    first = True
    for cuts in cutsets:
        chunks = HC.split(stream, cuts)
        w = {"kind": "hdlc", "cfg": list(cfg), "chunks": chunks, "expect": [SBytes(f) for f in must], "exact": False}
        ctx.intend(w, alts=lambda: ({"kind": "hdlc", "cfg": list(cfg), "chunks": HC.split(stream, c), "expect": [SBytes(f) for f in must], "exact": False} for c in cutsets))
        _, got = HC.read_chunks(cfg, chunks)
        if first:
            ctx.witness, ctx.obs, first = w, HC.sig(got), False
            ctx.nontrivial()
        valid = [g for g in got if bool(g.is_valid)]
        idx = 0
        for k, e in enumerate(must):
            while idx < len(valid) and not (len(valid[idx].as_bytes) == len(e) and eng.valid(valid[idx].as_bytes.seq_eq(SBytes(e)))[0]):
                idx += 1
            if idx == len(valid):
                ctx.violation(f"{label} cuts={cuts}: clean frame #{k} of the suffix not delivered valid", w)
                return
            idx += 1
        ctx.check(True, f"{label} cuts={cuts}", w)


def cuts_all(n):
    return [()] + [(c,) for c in range(1, n)]


def noise_path(cfg, k, n_free_payload):
    def path(eng, ctx):
        noise = [sym_octet(f"n{i}") for i in range(k)]
        fr = frames_with_free_payload(n_free_payload)
        dbl = eng.pick(2)
        wire = list(noise)
        for f in fr:
            wire += [0x7E] * (1 + dbl) + HC.sym_stuff(f)
        wire += [0x7E]
        stream = SBytes(wire)
        expect_assertions(eng, ctx, cfg, stream, fr[1:], fr, cuts_all(len(stream)), f"noise k={k}")
    return path


def bad_predecessor_path(cfg):
    """7E Fbad 7E F1 7E F2 7E : Fbad in {too short + free octets, aborted frame, complete frame with one free (wrong) octet,
    truncated frame, frame followed by an escape octet}. F2 (and F3) must be delivered; nothing clean may come out damaged."""
    def path(eng, ctx):
        kind = eng.pick(5)
        base = F[0]
        x, y = sym_octet("x"), sym_octet("y")
        in_sync = False
        if kind == 0:
            bad, label = [x, y], "too-short(2 free)"
        elif kind == 1:
            bad, label = base[:6] + [x, 0x7D], "aborted/escape-terminated"
        elif kind == 2:
            p = eng.pick(len(base))
            b = list(base); b[p] = x
            eng.assume(x != base[p])
            bad, label, in_sync = HC.sym_stuff(b), f"complete-but-damaged@{p}", True
        elif kind == 3:
            t = 1 + eng.pick(len(base) - 1)
            bad, label = ref.stuff(base[:t]) + [x], f"truncated@{t}+1free"
        else:
            bad, label, in_sync = ref.stuff(base) + [0x7D], "complete+trailing-escape", False
        clean = [list(F[1]), list(F[2]), list(F[0])]
        dbl = eng.pick(2)
        wire = [0x7E] + bad
        for f in clean:
            wire += [0x7E] * (1 + dbl) + ref.stuff(f)
        wire += [0x7E]
        stream = SBytes(wire)
        must = clean if (in_sync and cfg[0]) else clean[1:]
        expect_assertions(eng, ctx, cfg, stream, must, clean, cuts_all(len(stream)), f"bad predecessor {label}")
    return path


def nostuff_open_frame_path(cfg, k):
    """no stuffing: noise that OPENS a frame (flag + header announcing 2047 octets + filler) which is never completed, then
    flag-free frames; every frame starting beyond 2047 + one frame length after the noise must be delivered. The two octets that
    follow the point where the over-long frame is given up (what a reader restarting there would take for a length field) are free."""
    def path(eng, ctx):
        hdr = [0xA7, 0xFF, 0x03, 0x21, 0x13]
        head = [0x7E] + hdr + [ref.fcs16(hdr) & 0xFF, ref.fcs16(hdr) >> 8]

        def build(fill, free_at=None):
            frames, wire, starts, i = [], list(head) + [0x55] * fill, [], 0
            spans = []
            while len(wire) < len(head) + fill + 2 * 2047 + 200:
                pay = [(0x30 + i + j) & 0x7F if ((0x30 + i + j) & 0x7F) not in (0x7E, 0x7D) else 0x11 for j in range(12)]
                ctrl = 0x10 + (i % 8) * 2
                i += 1
                f = ref.build_frame([0x03], [0x21], ctrl, pay)
                if 0x7E in f or 0x7D in f:
                    continue
                wire += [0x7E]
                st = len(wire)
                if free_at is not None and st + 7 <= free_at[0] and free_at[1] < st + 7 + 12:
                    fp = list(pay)
                    for n_, pos_ in enumerate(free_at):
                        fp[pos_ - st - 7] = sym_octet(f"q{n_}")
                    f = HC.build_frame([0x03], [0x21], ctrl, fp)
                    for o in f:
                        if not isinstance(o, int):
                            eng.assume(o != 0x7E)
                            eng.assume(o != 0x7D)
                starts.append(st); frames.append(f); spans.append((st + 7, st + 7 + 12))
                wire += f
            wire += [0x7E]
            return frames, wire, starts, spans
        land = None
        for fill in range(k, k + 30):
            frames, wire, starts, spans = build(fill)
            a_, b_ = 2049, 2050                          # frame octet #2048 is stream[2048]; the next two octets follow the give-up point
            if any(lo <= a_ <= lo + 2 for lo, hi in spans):     # early in a payload: a reader restarting there has >= 7 octets before the next flag
                land = (fill, (a_, b_))
                break
        fill, free_at = land
        frames, wire, starts, spans = build(fill, free_at)
        n_noise = len(head) + fill
        flen = max(len(f) for f in frames)
        must = [f for s_, f in zip(starts, frames) if s_ > n_noise + 2047 + flen]
        stream = SBytes(wire)
        n = len(stream)
        expect_assertions(eng, ctx, cfg, stream, must, frames, [(), (n_noise,), (n // 2,)], f"no-stuffing, noise opens a 2047-octet frame (filler {fill})")
        ctx.count("n:must_frames", len(must))
    return path


def nostuff_resync_path(cfg, k):
    """no stuffing: k free noise octets, then ~2200 octets of concrete flag-free frames; every frame starting more than
    2047 + one frame length after the noise must be delivered."""
    def path(eng, ctx):
        noise = [sym_octet(f"n{i}") for i in range(k)]
        frames = []
        wire = list(noise)
        starts = []
        i = 0
        while len(wire) < k + 2047 + 3 * 24 + 40:
            f = ref.build_frame([0x03], [0x21], 0x10 + (i % 8) * 2, [(0x30 + i + j) & 0x7F if ((0x30 + i + j) & 0x7F) not in (0x7E, 0x7D) else 0x11 for j in range(12)])
            if 0x7E in f or (cfg[1] and 0x7D in f):
                i += 1
                continue
            wire += [0x7E]
            starts.append(len(wire)); frames.append(f)
            wire += f
            i += 1
        wire += [0x7E]
        flen = max(len(f) for f in frames)
        must = [f for s, f in zip(starts, frames) if s > k + 2047 + flen]
        stream = SBytes(wire)
        n = len(stream)
        cuts = [(), (k,), (k + 1,), (n // 2,), (n - 30,)] if k else [(), (n // 2,)]
        expect_assertions(eng, ctx, cfg, stream, must, frames, cuts, f"no-stuffing resync k={k}")
        ctx.count("n:must_frames", len(must))
    return path


def scenarios(tier):
    q = tier == "quick"
    A = inject.assumptions(("hdlc",))
    out = []
    for cfg in [(True, False), (True, True)]:
        k = 3 if q else 5
        out.append(Scenario(f"hdlc free noise k={k} + 3 frames {HC.cfg_name(cfg)}", noise_path(cfg, k, 1 if q else 2),
                            bounds={"noise": f"{k} free octets (any value incl. 7E/7D)", "suffix": "3 spec frames, single or double flags, 1-2 free payload octets", "splittings": "every single cut", "configuration": HC.cfg_name(cfg)},
                            domains=("hdlc",), frontier=5, assumptions=A, replay_cap=60))
        out.append(Scenario(f"hdlc bad predecessor {HC.cfg_name(cfg)}", bad_predecessor_path(cfg),
                            bounds={"predecessor": "too-short | escape-terminated/aborted | complete with one free wrong octet (any position) | truncated at any position + 1 free | complete + trailing escape",
                                    "suffix": "3 concrete spec frames, shared or double flags", "splittings": "every single cut", "configuration": HC.cfg_name(cfg)},
                            domains=("hdlc",), frontier=4, assumptions=A, replay_cap=60))
    for cfg in [(False, False), (False, True)]:
        out.append(Scenario(f"hdlc no-stuffing resync k={2 if q else 4} {HC.cfg_name(cfg)}", nostuff_resync_path(cfg, 2 if q else 4),
                            bounds={"noise": f"{2 if q else 4} free octets", "suffix": ">= 2047 + 3 frames of concrete flag-free frames", "claim": "frames starting beyond noise + 2047 + one frame length are delivered",
                                    "configuration": HC.cfg_name(cfg)}, domains=("hdlc",), frontier=4, assumptions=A, replay_cap=20))
    for cfg in [(False, False), (False, True)]:
        out.append(Scenario(f"hdlc no-stuffing: noise opens a frame announcing 2047 octets + {1 if q else 3} free, then > 4 KiB of clean frames {HC.cfg_name(cfg)}", nostuff_open_frame_path(cfg, 1 if q else 3),
                            bounds={"noise": "7E + valid header announcing 2047 octets + filler; the two octets after the give-up point are free", "suffix": "about 4.3 KiB of concrete flag-free frames", "claim": "frames starting beyond noise + 2047 + one frame length are delivered",
                                    "configuration": HC.cfg_name(cfg)}, domains=("hdlc",), frontier=3, workers=4, assumptions=A, replay_cap=10))
    try:
        from checks import p1_common
        out += p1_common.c16_scenarios(tier)
    except ImportError:
        pass
    return out


def main():
    tier = runner.tier_from_argv()
    return runner.run_check(PROP, "model_checking", scenarios(tier), tier,
                            technique="path-wise symbolic execution of the real readers on free noise followed by spec-built messages; delivery of the clean suffix decided by z3 per path",
                            outside=["noise longer than the stated k free octets (longer noise only as structured prefixes)", "more than 3 following messages (stuffing) ", "cut sets other than single cuts"])


if __name__ == "__main__":
    sys.exit(main())
