#!/usr/bin/env python3
"""Regenerates the table of seeded changes at the end of DESIGN.md from seeded/*/meta.json."""
import json, glob, os, re
here = os.path.dirname(os.path.abspath(__file__))
rows = []
for p in sorted(glob.glob(os.path.join(here, "seeded", "*", "meta.json"))):
    m = json.load(open(p))
    notes = (m.get("needs_to_manifest") or "").strip().splitlines()
    first = next((l.strip("# -*").strip() for l in notes if l.strip() and not l.startswith("#")), "")
    checks = m.get("checks", {})
    def verdict(t):
        c = checks.get(t)
        if not c:
            return "-"
        return {0: "missed", 1: "CAUGHT", 2: "inconclusive", 3: "harness error"}.get(c["exit"], str(c["exit"])) + f" ({c['wall_s']} s)"
    caught_by = m.get("caught_by", "") or m.get("note", "")[:90]
    fs = m.get("first_shot_quick")
    fsv = "-" if not fs else {0: "missed", 1: "caught", 2: "inconclusive", 3: "harness error", 143: "hung"}.get(fs["exit"], str(fs["exit"]))
    rows.append(f"| {m['property']}-{m['variant']} | {first[:150]} | {fsv} | {verdict('quick')} | {verdict('thorough')} | {caught_by} |")
table = ["", "<!-- seeded-table-begin -->", "| Seed | What it is (first line of the author's notes) | first shot (quick) | quick now | thorough | note |", "|---|---|---|---|---|---|"] + rows + ["<!-- seeded-table-end -->", ""]
path = os.path.join(here, "DESIGN.md")
s = open(path).read()
s = re.sub(r"\n<!-- seeded-table-begin -->.*<!-- seeded-table-end -->\n", "", s, flags=re.S)
open(path, "w").write(s.rstrip("\n") + "\n" + "\n".join(table))
print(len(rows), "seeds")
