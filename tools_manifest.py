#!/usr/bin/env python3
"""Regenerates MANIFEST.json from the table below (keeps it valid at all times). Run: python3 tools_manifest.py"""
import json, os

CHECKS = {
    "C03": dict(level="proof", design="§4 C03",
                text="Five closed SMT lemmas (step == 8 bit-serial RFC 1662 steps for all 2^24 register/octet pairs; good-FCS residue in both directions for all "
                     "2^16 registers; complement; initial value) are discharged as unsat by two z3 versions on terms produced by running the real methods; "
                     "induction on length (meta-argument) lifts them to every byte string; the real compute_checksum/update loops are additionally executed "
                     "symbolically on free data for every (start,length) window up to 8 (quick) / 16 (thorough) octets against the bit-serial definition.",
                note="Trusted: z3 (two versions agree), the symx proxies (validated per path against the pristine code), the repository's table read at import as "
                     "256 ground facts, CPython int semantics. The induction step itself is a paper argument.",
                technique="SMT (QF_UFBV) lemmas over symbolically executed real methods + bounded symbolic execution of the real loops (z3)"),
    "C01": dict(level="model_checking", design="§4 C01",
                text="Bounded symbolic path exploration of the real HdlcFrame/HdlcFrameReader: frame objects of up to 16 (quick) / 28 (thorough) fully free octets and "
                     "2045-2047-octet frames with free octets; reader on free streams, structured streams and spec-built frames with one free damage (replacement, truncation, "
                     "insertion) in all four configurations and every single cut. Per path the solver proves is_valid <=> (length field == octet count and bit-serial RFC 1662 FCS "
                     "matches), accessor exactness, contiguity/disjointness/order - for every value of the free octets.",
                note="Trusted: z3, the symx proxies and table model (every explored path is replayed on the pristine code and must agree), the reference FCS/address parser in spec/ref.py. "
                     "Lengths and cut positions are enumerated, not solved for.",
                technique="bounded symbolic execution of the real code on z3 terms (GF(2)-affine normal form + Gauss-Jordan store for FCS equivalence)"),
    "C02": dict(level="model_checking", design="§4 C02",
                text="Spec-built well-formed frames (check sequences as terms over free control/payload octets, or over entirely free header fields) on clean streams with 1-3 flags of "
                     "fill and optional flag-free noise are run through the real reader for every single cut and byte-at-a-time in all four configurations; the solver proves per path "
                     "that exactly the sent frames come out, valid, with the exact payload and header fields - also while a second reader object of the same configuration is fed free octets between the calls. "
                     "A 2047-octet frame with a flag/escape-dense payload (more than 2047 octets on the wire) is in both tiers; thorough adds 2046/2047 in all configurations.",
                note="Trusted: z3, symx proxies (per-path pristine replay), spec frame builder. Header and payload are not free at the same time; free payload <= 2+1 (quick) / 4+2+1 (thorough).",
                technique="bounded symbolic execution of the real reader on spec-built symbolic frames (z3 + linear store)"),
    "C06": dict(level="model_checking", design="§4 C06",
                text="The same free stream (all 256^n contents, n up to 9/11 from the initial state, and structured 7E+header-like+free+7E streams) is fed to real readers under different "
                     "splittings (one call, every single cut, byte-at-a-time, cut pairs in thorough); the solver proves for each path that all observables of all returned frames are equal. "
                     "All four configurations; thorough adds over-long frames crossing the 2047 guard.",
                note="Trusted: z3, symx proxies (every path replayed on the pristine code). Stream lengths and cut positions enumerated.",
                technique="bounded symbolic execution of the real reader twice on the same symbolic stream; equality of outputs decided by z3 per path"),
    "C04": dict(level="model_checking", design="§4 C04",
                text="The real DataReadout (built directly from bytes and obtained through ModeDReader with cuts) is executed on readouts with free printable/unconstrained data octets, four "
                     "entirely free checksum characters (all 2^32 values incl. 0000, case variants, signs, blanks), free identification-line characters and a free window at every offset of a "
                     "genuine readout. Per path the solver proves: valid => identification line well-formed and (four hex digits => value == independent bit-serial CRC16 of '/'..'!'), "
                     "invalid with fine ident/ASCII/4-hex => checksum differs, payload == bytes between ident line and '!'.",
                note="Trusted: z3, symx proxies incl. the int()/regex models (validated per path against the pristine code), the reference predicates in spec/ref_p1.py. "
                     "'Is a checksum' is read as exactly four hex digits; other texts after '!' carry no claim.",
                technique="bounded symbolic execution of the real code on z3 terms; CRC16 in GF(2)-affine form compared with an independent bit-serial definition"),
    "C14": dict(level="model_checking", design="§4 C14",
                text="HDLC reader (4 configurations) on 7/9 fully free octets and structured streams with every single cut and all message accessors; an open frame that misses its announced length and reaches the 2047-octet limit with free octets (flags, escapes) around it; "
                     "P1 reader and DataReadout accessors on seven noise "
                     "families with 3/5 free octets ('/'+free+LF, ident+free+LF, ident+data+'!'+free, '!' inside the ident line, readout+free+readout, ...), an unfinished readout across the 8191 guard; both protocol classes with [HDLC,P1] candidates. Any exception "
                     "escaping on any feasible path is the violation; thorough also requires the clean suffix after the noise to be delivered (reader stays usable).",
                note="Trusted: z3, symx proxies (per-path pristine replay). Exceptions raised by the models themselves are EngineLimit (inconclusive), never counted as passes.",
                technique="bounded symbolic execution of the real readers/protocols on free octets; escaping exception on a feasible path = violation (z3 feasibility + concrete replay)"),
    "C16": dict(level="model_checking", design="§4 C16",
                text="Free noise (3/5 octets, any value) and structured bad predecessors (too-short, escape-terminated/aborted, complete-but-damaged at any position, truncated at any position, "
                     "trailing escape) followed by three spec-built frames, every single cut, stuffing configurations: the solver proves per path that every clean frame except possibly the "
                     "first is delivered valid; no-stuffing: frames starting beyond noise+2047+one frame length are delivered; P1: noise and readout-looking prefixes followed by three readouts, "
                     "an unfinished readout across the buffer guard, and long clean suffixes whose second call brings more than 8 KiB at once.",
                note="Trusted: z3, symx proxies (per-path pristine replay), spec frame/readout builders.",
                technique="bounded symbolic execution of the real readers on free noise followed by spec-built messages (z3 + linear store)"),
    "C05": dict(level="model_checking", design="§4 C05",
                text="Spec-built readouts with free digits (checksums are CRC16 terms over them), with and without checksum, optionally after the tail of a readout, are run through the real "
                     "ModeDReader for every single cut, a grid of cut pairs (thorough) and line-by-line; concrete-length histories of >= 3 x 8192 octets cross the buffer guard with chunk sizes "
                     "chosen so that no call starts between two readouts (sweep of readout size x chunk size x first-chunk offset). The solver proves per path that every readout is returned "
                     "once, byte-identical, valid, in order.",
                note="Trusted: z3, symx proxies (per-path pristine replay), spec readout builder. Lengths, sizes and chunk sizes are enumerated, not solved for.",
                technique="bounded symbolic execution of the real P1 reader on spec-built readouts with symbolic digits/checksums; long concrete-length call histories (z3 per path)"),
    "C19": dict(level="model_checking", design="§4 C19",
                text="Streams prefix.period^m whose period is 2 (quick) / 3 (thorough) FREE octets - every path is a class of patterns over the whole alphabet (all flags, flag+junk, '/' without LF, "
                     "...) and the solver decides which classes exist - plus concrete periods (valid frames/readouts back to back, endless data lines, identification lines without end line), total "
                     "length 5-16 x the maximum message size, several chunk sizes, fed to the real readers; after every read() the octets reachable from the reader minus the chunk must stay <= 3 x M.",
                note="Trusted: z3, symx proxies (per-path pristine replay). Retained size is counted as octets held in reachable sequences, not sys.getsizeof. No MiB-scale streams.",
                technique="bounded symbolic execution of the real readers on periodic streams with a symbolic period (z3 decides the pattern classes); size bound checked after every call"),
    "C17": dict(level="model_checking", design="§4 C17",
                text="The real connect_loop/close/_try_connect run with the real asyncio Task/Event/wait/sleep on a virtual-time event loop whose timer deadlines are z3 terms: per-attempt outcome, "
                     "latency, loss and lifetime and the instant of close() (any half-second, then 0..k further loop iterations at that instant) are symbolic. Each path is one event-ordering class "
                     "that the solver shows realisable; on its trace: at most one live transport, no attempt while connected, reconnects after every failure/loss, after close(): connect_loop returns "
                     "at the same virtual instant, no later attempt, every transport closed; pending tasks do not grow from one reconnect cycle to the next. Every path's model is replayed on the "
                     "real SelectorEventLoop scheduler driven by a fake clock and must give the identical trace.",
                note="Trusted: z3, the VLoop model of the scheduler (validated per path against the real asyncio scheduler), scripted factory/transport fakes. 4/6 attempts, 2/3 losses, whole-second "
                     "latencies/lifetimes 0..2 s.",
                technique="symbolic execution of the real coroutine code on a virtual-time loop with symbolic deadlines (z3 decides event orderings); bounded model checking of ordering classes"),
    "C18": dict(level="model_checking", design="§4 C18",
                text="Inductive-step lemma on the real ExponentialBackOff methods from an arbitrary invariant state (n and max_delay unbounded integers, pow2 uninterpreted with its defining instances): "
                     "every operation re-establishes the invariant and reports min(2^(n-1), max_delay). All failure/reset sequences of 10/14 calls with free max_delay. Manager traces on the virtual-time loop "
                     "(6/8 attempts, 3 losses, default configuration; 4/6 attempts and 2 losses, or 3/4 attempts and 3 losses, with max_delay, threshold and sleep free in 1..3600; two managers on one loop): every attempt starts no sooner than the capped back-off after "
                     "the failure and no later than max(back-off, breaker sleep); success resets; two losses within the threshold delay the next attempt by at least the sleep.",
                note="Trusted: z3, VLoop (validated per path against the real asyncio scheduler), virtual utcnow. Durations are whole seconds; virtual time has no scheduling slack.",
                technique="inductive-step SMT lemma over symbolically executed real methods + bounded symbolic execution of call sequences and of connect_loop with symbolic timing (z3)"),
    "C07": dict(level="model_checking", design="§4 C07-C09",
                text="Every documented Aidon layout (NO lists 1-3 one/three phase, SE list) plus every ordered selection of <= 2/3 elements: all register octets (u32/i16/u16, full range incl. sign) "
                     "and all text characters (any 7-bit ASCII value, NUL included) are free at once, the scaler of each element in turn is free in -3..3; the real construct grammar and normalisation run on it; per path the solver "
                     "proves keys == expected names and every value == register*10^scaler (exact, or its correctly rounded float), texts verbatim, manufacturer, frame == bare body.",
                note="Trusted: z3, symx proxies and construct/Decimal/float models (every path replayed on the pristine decoder), the independent A-XDR walker and name tables in spec/cosem_ref.py. "
                     "float(Decimal) assumed correctly rounded.",
                technique="symbolic execution of the real construct grammar and normalisation with all value octets as z3 variables; comparison with an independent reference dictionary per path"),
    "C08": dict(level="model_checking", design="§4 C07-C09",
                text="All six Kaifa layouts (positional 1, 9, 13, 14, 18 items and the OBIS-tagged SE list) with every 32-bit register octet and every text character (any 7-bit ASCII value; 12-character texts 0x20..0x7F, see DESIGN 6) free at once: per path the "
                     "solver proves the field name of every position/OBIS code, powers/energies == register, currents == correctly rounded register/1000, voltages == register/10 (round() picks the "
                     "transmitted integer), texts verbatim, manufacturer, clock rule (list clock wins over APDU clock), frame == bare body.",
                note="Trusted: z3, symx proxies incl. the relative-error float model and round() model (sat answers replayed with real floats; every path replayed on the pristine decoder), spec/cosem_ref.py.",
                technique="symbolic execution of the real construct grammar and normalisation with all value octets as z3 variables; float kernels in the relative-error model (QF_NRA/LIRA)"),
    "C09": dict(level="model_checking", design="§4 C07-C09",
                text="All six captured Kamstrup layouts x meter type (free characters, first three == / != 685) x null-data padding variants, every register octet and text character free at once: "
                     "currents == register/100 (/1000 for CT meters) to within 2 ulp, energies == register*10, others unchanged, texts verbatim, APDU clock for frames, frame == bare body otherwise.",
                note="Trusted: as C08. 'Equal to register/100' is read to within 2 ulp (register*10**-2 is one rounding away from register/100).",
                technique="symbolic execution of the real construct grammar and normalisation with all value octets as z3 variables; float kernel in the relative-error model"),
    "C10": dict(level="model_checking", design="§4 C10",
                text="The 12 octets of a COSEM date-time are free under the statement's validity constraints (valid calendar date 1..9999, time of day, hundredths 0..99|FF, deviation -720..720|8000, any "
                     "day-of-week, any of the 256 status octets) in each syntactic position (APDU tagged/untagged; Aidon, Kaifa positional, Kaifa OBIS-tagged, Kamstrup clock elements): per path "
                     "(hundredths FF?, deviation 8000?, status FF?) the solver proves civil fields, microseconds = hundredths*10000|0, offset = -deviation, naive iff unspecified. Complete over the domain.",
                note="Trusted: z3, the datetime/timezone model (CPython's validation rules; every path replayed against the real datetime), construct bit-field model.",
                technique="symbolic execution of the real construct DateTime grammar on 12 free octets; integer arithmetic decided by z3 per path"),
    "C12": dict(level="model_checking", design="§4 C12",
                text="One-step lemma covering every history: the decoder table is replaced by stubs whose accept/reject (and rejecting exception type) for this payload are free Booleans, the remembered "
                     "index is free in {None,0..6}; the real decode_message_payload and decode_message (DLMS message, HDLC frame, P1 readout) run on it and all 2040 paths per entry point are compared "
                     "with the statement (first acceptor in cyclic order from the remembered one; None iff nobody accepts; remembered decoder updated / unchanged). Own-decoder claim: all real decoders "
                     "run through a fresh AutoDecoder and one remembering the own decoder on documented lists (frame and body) with a free register; the own decoder is selected and the values equal the reference.",
                note="Trusted: z3, symx proxies (every path replayed on the pristine AutoDecoder with concrete stubs / real decoders), spec/cosem_ref.py. The lemma abstracts decoders to accept/reject.",
                technique="one-step symbolic lemma on the real selection loop with stub decoders (free Booleans) + symbolic execution of all real decoders through AutoDecoder (z3 per path)"),
    "C15": dict(level="model_checking", design="§4 C15",
                text="All seven real decoders are executed symbolically - each as if it were the remembered one - on genuine messages of every meter (frame and body) and a P1 block with a free 1-octet "
                     "window at every offset (2 octets over headers in thorough: all 256^w values at once), on every truncation, on positional lists re-cut to every item count, and on short fully free "
                     "binary and ASCII strings; a decoder returning anything but a dict, raising anything but ConstructError/ValueError, or not finishing within the guard is the violation, replayed "
                     "through AutoDecoder on the pristine code.",
                note="Trusted: z3, symx proxies and construct/regex/float/datetime models (per-path replay of every decoder's outcome on the pristine code). Termination by wall-clock guard (12 s symbolic, 5 s concrete).",
                technique="bounded symbolic execution of the real decoders on free octet windows of genuine messages; escaping exception or non-termination on a feasible path = violation"),
    "C11": dict(level="model_checking", design="§4 C11",
                text="Data blocks generated from the IEC 62056-21 syntax - kW/kWh/kvar/kvarh value with every digit free (integer part 1..6, fraction 0..3 digits, leading zeros), unit letters free in case, "
                     "V/A/var/varh value, free text, 12 free clock digits (valid date-time), CRLF/LF/blank lines, multi-value data sets, a block of multi-value sets only, two data sets per line - run through the real parser and decoder "
                     "(regular expressions interpreted symbolically, float()/int() in the relative-error model): per path the solver proves structure, names, exact-1 <= W <= exact, V = rn(value), clock "
                     "fields, verbatim text, and that decode_p1_readout / decode_p1_readout_content / AutoDecoder agree (plus manufacturer and type id from a free identification line).",
                note="Trusted: z3, symx proxies incl. regex/int/float/datetime models (every path replayed on the pristine code; float sat answers replayed with real floats), reference parser in spec/concrete.py. "
                     "OBIS addresses are concrete members of the documented table plus unknown ones.",
                technique="bounded symbolic execution of the real parser/decoder on syntax-generated blocks with symbolic digits; float kernel int(float(v)*1000) in the relative-error model (QF_LIRA+UF)"),
    "C13": dict(level="model_checking", design="§4 C13",
                text="Lemma with stub readers: 2 (quick) / 3 (thorough) candidate readers whose read() returns 0..2 messages per call, each with free is_valid and free payload kind (None/empty/non-empty), "
                     "2/3 data_received calls, both protocol classes, real asyncio.Queue; the stubs are indexed by chunk (a candidate that is not fed a chunk loses it) and every path is compared with a reference selection function over the whole plan - this covers every stream and "
                     "chunking up to the message counts because the protocol sees readers only through read()/is_valid/payload. Corollary: the real HDLC and P1 readers on spec-built clean streams "
                     "(header-only frame, free payload octet / free digit), candidate lists [HDLC], [P1], [HDLC,P1], [P1,HDLC], stuffing variant, several splittings.",
                note="Trusted: z3, symx proxies (every path replayed on the pristine protocol classes with concrete stub readers / real readers).",
                technique="symbolic execution of the real data_received/message_received with stub readers whose outputs are free z3 Booleans/ints, compared with a reference per path"),
    "C20": dict(level="model_checking", design="§4 C20",
                text="The real to_obis_tupple/Obis.from_string run with the repository's combined regular expression interpreted over symbolic characters: all 16 presence patterns of the reduced form and "
                     "the six-part form, every group rendered as 1..2/3 free digits (value <= 255, leading zeros); malformed strings of 1..4/6 characters over digits, separators, letters and blanks "
                     "without digit.digit must raise ValueError; == on two free group tuples (16x16 presence patterns) <=> component equality, equal objects hash equally; C.D.E string; round trip "
                     "from_string(to_reduced_str()) for all presence patterns with optional groups non-zero; comparison with strings. Complete over the stated domain.",
                note="Trusted: z3, the regex interpreter (built from re._parser's parse tree of the repository's own pattern; every path replayed against the real re module), f-string rewrites from source, hash() as an uninterpreted function.",
                technique="bounded symbolic execution of the real parser/formatter with a symbolic regex interpreter and symbolic characters (z3 per path)"),
}

NOT_YET = {}

def main():
    here = os.path.dirname(os.path.abspath(__file__))
    props = [json.loads(l) for l in open(os.path.join(here, "properties.jsonl"))]
    checks = []
    for p in props:
        c = CHECKS.get(p["id"])
        if not c:
            continue
        checks.append({
            "property_id": p["id"],
            "quick_cmd": f"bin/vcheck {p['id']} --tier quick",
            "thorough_cmd": f"bin/vcheck {p['id']} --tier thorough",
            "evidence_file": f"/verif/evidence/{p['id']}.json",
            "replay_cmd_template": "bin/vcheck replay {path}",
            "engine": "symx",
            "level_claimed": {"category": c["level"], "text": c["text"], "design_ref": c["design"]},
            "level_note": c["note"],
            "technique": c["technique"],
        })
    na = [{"property_id": p["id"], "reason": NOT_YET.get(p["id"], "check not built yet in this commit (work in progress; planned per DESIGN.md §4)")}
          for p in props if p["id"] not in CHECKS]
    man = {
        "version": 1,
        "setup_cmd": "bin/setup",
        "hooks": {"guard": "AMSHAN_VERIF", "enable": "no source hooks: the checks rebind names in the modules' globals at run time (DESIGN.md §2.3); AMSHAN_VERIF=1 is exported by bin/vcheck for completeness",
                  "baseline_off_cmd": "cd /repo && /venv/bin/python -m pytest -ra -q -p no:cacheprovider --timeout=900 --continue-on-collection-errors",
                  "source_commits": [], "add_only": True},
        "engines": [{"name": "symx", "path": "/verif/symx", "serves_properties": [c["property_id"] for c in checks],
                     "kind_free_text": "path-wise symbolic executor for the real Python functions of /repo/han on z3 terms (proxy operands, decision-log re-execution, "
                                       "GF(2)-affine normal form + Gauss-Jordan store for check sequences, virtual-time asyncio loop), with per-path differential replay on the pristine code"}],
        "checks": checks,
        "not_applicable": na,
        "notes": "All checks: exit 0 held / 1 VIOLATION (replay-confirmed) / 2 inconclusive / 3 harness error. Known findings: /verif/known_findings.json.",
    }
    json.dump(man, open(os.path.join(here, "MANIFEST.json"), "w"), indent=1)
    print("MANIFEST.json:", len(checks), "checks,", len(na), "not_applicable")

if __name__ == "__main__":
    main()
