"""spec.concrete — concrete oracles: plain Python predicates run on the UNMODIFIED repository code (pristine worker
and `vcheck replay`). observe(prop, w) returns the observables of a concrete scenario; judge(prop, w) returns None when
the property holds on it, or {"signature": ..., "detail": ...} describing the violation. No symbolic machinery here."""
import traceback
from . import ref

H = lambda b: None if b is None else bytes(b).hex()


def exc_signature(e):
    """<ExceptionType>@<innermost han function> — identifies an escaping exception independently of the input."""
    site = "?"
    for fr in traceback.extract_tb(e.__traceback__):
        if "/han/" in fr.filename:
            site = fr.filename.rsplit("/", 1)[-1][:-3] + "." + fr.name
    return f"{type(e).__name__}@{site}"


# ------------------------------------------------------------------------------------------------ HDLC
def hdlc_run(cfg, chunks):
    from han import hdlc
    r = hdlc.HdlcFrameReader(bool(cfg[0]), bool(cfg[1]))
    out = []
    for ch in chunks:
        out += r.read(bytes.fromhex(ch))
    return r, out


def hdlc_obs(frames):
    return [[H(f.as_bytes), bool(f.is_good_ffc), bool(f.is_expected_length), H(f.payload)] for f in frames]


def observe_hdlc(w):
    _, fr = hdlc_run(w["cfg"], w["chunks"])
    return hdlc_obs(fr)


def hdlc_run_twin(cfg, chunks, twin):
    """reader 1 gets `chunks`; after its first call a second reader object of the same configuration reads `twin`"""
    from han import hdlc
    r1, r2 = hdlc.HdlcFrameReader(bool(cfg[0]), bool(cfg[1])), hdlc.HdlcFrameReader(bool(cfg[0]), bool(cfg[1]))
    out = []
    for k, ch in enumerate(chunks):
        out += r1.read(bytes.fromhex(ch))
        if k == 0:
            for t in twin:
                r2.read(bytes.fromhex(t))
    return out


def judge_C06(w):
    try:
        a = hdlc_obs(hdlc_run(w["cfg"], w["chunks"])[1])
        b = hdlc_obs(hdlc_run_twin(w["cfg"], w["chunks2"], w["twin"]) if w.get("twin") else hdlc_run(w["cfg"], w["chunks2"])[1])
    except Exception as e:
        return {"signature": "exception:" + exc_signature(e), "detail": repr(e)}
    if a != b:
        return {"signature": "chunking-dependent-output", "detail": f"cfg={w['cfg']} chunks={w['chunks']} -> {a} ; chunks2={w['chunks2']} -> {b}"}
    return None


def _segments(stream):
    """maximal flag-free runs with their start offsets"""
    segs, cur, start = [], [], 0
    for i, o in enumerate(stream):
        if o == ref.FLAG:
            segs.append((start, cur, True)); cur, start = [], i + 1
        else:
            cur.append(o)
    segs.append((start, cur, False))      # last run is not closed by a flag
    return segs


def c01_frame_checks(f):
    """is_valid <=> intact, and accessor exactness for valid frames. -> None | (signature, detail)"""
    octs = list(f.as_bytes)
    spec = ref.frame_is_intact(octs)
    got = bool(f.is_valid)
    if got != spec:
        return ("is_valid-differs-from-spec", f"frame {H(octs)} is_valid={got} spec={spec}")
    if got:
        fl = ref.frame_fields(octs)
        if fl is None:
            return None               # address fields run to the end of the frame: no corresponding octets, nothing claimed
        h = f.header
        exp = dict(frame_length=fl["length"], destination_address=bytes(octs[fl["dst"][0]:fl["dst"][1]]), source_address=bytes(octs[fl["src"][0]:fl["src"][1]]),
                   control=octs[fl["control"]], header_check_sequence=(octs[fl["hcs"][0]] << 8) | octs[fl["hcs"][0] + 1])
        for k, v in exp.items():
            if getattr(h, k) != v:
                return ("accessor-" + k, f"frame {H(octs)} header.{k}={getattr(h, k)!r} expected {v!r}")
        n = len(octs)
        if f.frame_check_sequence != ((octs[n - 2] << 8) | octs[n - 1]):
            return ("accessor-frame_check_sequence", f"frame {H(octs)} fcs={f.frame_check_sequence!r}")
        pl = f.payload
        exp_pl = bytes(octs[fl["info"]:n - 2]) if n > fl["info"] else None
        if pl != exp_pl:
            return ("accessor-payload", f"frame {H(octs)} payload={H(pl)} expected {H(exp_pl)}")
    return None


def c01_contiguity(cfg, stream, frames):
    """every returned frame's octets occur contiguously between two flags, in order, sharing no non-flag octet"""
    if bool(cfg[0]):              # octet stuffing: a frame is exactly one un-stuffed flag-delimited segment
        segs = _segments(stream)
        k = 1                     # segment 0 is not preceded by a flag
        for f in frames:
            octs = list(f.as_bytes)
            while k < len(segs) and not (segs[k][2] and segs[k][1] and ref.unstuff(segs[k][1]) == octs):
                k += 1
            if k >= len(segs):
                return ("not-contiguous-between-flags", f"frame {H(octs)} is not the un-stuffed content of a later flag-delimited segment of {H(stream)}")
            k += 1
        return None
    pos = 1
    for f in frames:
        octs = list(f.as_bytes)
        n = len(octs)
        found = None
        for i in range(pos, len(stream) - n):
            if stream[i - 1] == ref.FLAG and stream[i + n] == ref.FLAG and stream[i:i + n] == octs:
                found = i; break
        if found is None or n == 0:
            return ("not-contiguous-between-flags", f"frame {H(octs)} not found between flags at or after offset {pos} in {H(stream)}")
        pos = found + n + 1
    return None


def judge_C01(w):
    try:
        _, frames = hdlc_run(w["cfg"], w["chunks"])
        for f in frames:
            r = c01_frame_checks(f)
            if r:
                return {"signature": r[0], "detail": f"cfg={w['cfg']} chunks={w['chunks']}: {r[1]}"}
        stream = list(bytes.fromhex("".join(w["chunks"])))
        r = c01_contiguity(w["cfg"], stream, frames)
        if r:
            return {"signature": r[0], "detail": f"cfg={w['cfg']} chunks={w['chunks']}: {r[1]}"}
    except Exception as e:
        return {"signature": "exception:" + exc_signature(e), "detail": repr(e)}
    return None


def judge_C01_obj(w):
    """frame object built by append()ing the octets directly"""
    from han import hdlc
    try:
        f = hdlc.HdlcFrame()
        for o in bytes.fromhex(w["octets"]):
            f.append(o)
        r = c01_frame_checks(f)
        if r:
            return {"signature": r[0], "detail": f"HdlcFrame.append x{len(w['octets']) // 2}: {r[1]}"}
    except Exception as e:
        return {"signature": "exception:" + exc_signature(e), "detail": repr(e)}
    return None


def observe_C01_obj(w):
    from han import hdlc
    f = hdlc.HdlcFrame()
    for o in bytes.fromhex(w["octets"]):
        f.append(o)
    return [bool(f.is_good_ffc), bool(f.is_expected_length), H(f.payload)]


def judge_expect_frames(w, prop):
    """C02 / C16: w["expect"] = frames (hex, un-stuffed) that must be delivered valid, in order; w["exact"]: nothing else may be returned."""
    try:
        frames = hdlc_run_twin(w["cfg"], w["chunks"], w["twin"]) if w.get("twin") else hdlc_run(w["cfg"], w["chunks"])[1]
        got = [(H(f.as_bytes), bool(f.is_valid), H(f.payload)) for f in frames]
    except Exception as e:
        return {"signature": "exception:" + exc_signature(e), "detail": repr(e)}
    exp = w["expect"]
    ctx = f"cfg={w['cfg']} chunks={w['chunks']} returned={got}"
    if w.get("exact"):
        if [g[0] for g in got] != exp:
            return {"signature": "frames-differ-from-sent", "detail": f"expected exactly {exp}; {ctx}"}
        if not all(g[1] for g in got):
            return {"signature": "well-formed-frame-reported-invalid", "detail": ctx}
    else:
        idx = 0
        for e in exp:
            while idx < len(got) and not (got[idx][0] == e and got[idx][1]):
                idx += 1
            if idx == len(got):
                return {"signature": "frame-after-noise-not-delivered", "detail": f"expected {e} valid; {ctx}"}
            idx += 1
    for e, pl in zip(exp, w.get("payloads", [])):
        for g in got:
            if g[0] == e and g[1] and g[2] != pl:
                return {"signature": "payload-differs", "detail": f"frame {e} payload {g[2]} expected {pl}"}
    if w.get("no_invalid_from"):
        # no returned frame may be invalid and consist of octets of the clean frames (a damaged copy of a clean frame)
        for g in got:
            if not g[1] and any(g[0] and (g[0] in e or e in g[0]) for e in w["no_invalid_from"]):
                return {"signature": "clean-frame-corrupted-by-predecessor", "detail": f"invalid frame {g[0]}; {ctx}"}
    return None


def judge_C02(w):
    return judge_expect_frames(w, "C02")


def judge_C16(w):
    if w.get("kind") == "p1":
        return judge_p1_expect(w)
    return judge_expect_frames(w, "C16")


# ------------------------------------------------------------------------------------------------ FCS (C03)
def judge_C03(w):
    from han.fastframecheck import FastFrameCheckSequence16 as F
    k = w["kind"]
    if k == "step":
        got = F._next(w["crc"], w["byte"])
        exp = ref.fcs16_register([w["byte"]], init=w["crc"])
        if got != exp:
            return {"signature": "step-differs-from-rfc1662", "detail": f"_next({w['crc']:#06x},{w['byte']:#04x})={got:#06x} bit-serial={exp:#06x}"}
    elif k == "residue":
        f = F(); f._crc_value = w["crc"]
        f.update(w["a"]); f.update(w["b"])
        comp = w["crc"] ^ 0xFFFF
        exp = (w["a"], w["b"]) == (comp & 0xFF, comp >> 8)
        if bool(f.is_good) != exp:
            return {"signature": "is_good-residue", "detail": f"register {w['crc']:#06x} then {w['a']:#04x},{w['b']:#04x}: is_good={f.is_good} expected {exp}"}
    elif k == "window":
        data = bytes.fromhex(w["data"])
        got = F.compute_checksum(data, w["start"], w["length"])
        exp = ref.fcs16(list(data[w["start"]:w["start"] + w["length"]]))
        if got != exp:
            return {"signature": "compute_checksum-differs", "detail": f"data={w['data']} start={w['start']} length={w['length']}: {got:#06x} vs {exp:#06x}"}
        f = F()
        for b in data:
            f.update(b)
        if f.checksum != ref.fcs16(list(data)):
            return {"signature": "incremental-checksum-differs", "detail": f"data={w['data']}: {f.checksum:#06x}"}
        n = len(data)
        if n >= 2:
            e = ref.fcs16(list(data[:-2]))
            expg = (data[-2], data[-1]) == (e & 0xFF, e >> 8)
            if bool(f.is_good) != expg:
                return {"signature": "is_good-differs", "detail": f"data={w['data']} is_good={f.is_good} expected {expg}"}
    elif k == "mutated":
        buf = bytearray(bytes.fromhex(w["data"]))
        F.compute_checksum(buf, 0, w["length"])
        buf[:] = bytes.fromhex(w["changed"])
        got = F.compute_checksum(buf, 0, w["length"])
        exp = ref.fcs16(list(buf[:w["length"]]))
        if got != exp:
            return {"signature": "compute_checksum-remembers-earlier-call", "detail": f"same bytearray object changed in place from {w['data']} to {w['changed']}: {got:#06x} vs {exp:#06x}"}
    elif k == "init":
        if F()._crc_value != 0xFFFF or F().checksum != 0:
            return {"signature": "initial-register", "detail": "fresh object register != 0xFFFF"}
    return None


def observe_C03(w):
    from han.fastframecheck import FastFrameCheckSequence16 as F
    data = bytes.fromhex(w["data"])
    f = F()
    for b in data:
        f.update(b)
    return [F.compute_checksum(data, w["start"], w["length"]), f.checksum, bool(f.is_good)]


# ------------------------------------------------------------------------------------------------ P1 (C04, C05, C16-P1)
def p1_run(chunks):
    from han import dlde
    r = dlde.ModeDReader()
    out = []
    for ch in chunks:
        out += r.read(bytes.fromhex(ch))
    return r, out


def _safe(fn):
    try:
        return fn()
    except Exception as e:
        return "exc:" + type(e).__name__


def p1_obs(readouts):
    return [[H(r.as_bytes), _safe(lambda: bool(r.is_valid)), _safe(lambda: H(r.payload))] for r in readouts]


def p1_readouts(w):
    from han import dlde
    if "readout" in w:
        return [dlde.DataReadout(bytes.fromhex(w["readout"]))]
    return p1_run(w["chunks"])[1]


def observe_C04(w):
    try:
        rs = p1_readouts(w)
        return p1_obs(rs)
    except ValueError as e:
        return "ctor:" + type(e).__name__


def c04_touch(r, order):
    """same accessor order as the symbolic harness used on this path"""
    if order == 1:
        try:
            r.identification_line
        except Exception:
            pass
    elif order == 2:
        for acc in ("payload", "as_bytes", "expected_checksum", "end_line", "is_valid"):
            try:
                getattr(r, acc)
            except Exception:
                pass


def c04_readout_checks(r, order=0):
    from . import ref_p1
    c04_touch(r, order)
    raw = list(r.as_bytes)
    try:
        valid = bool(r.is_valid)
    except Exception:
        return None                     # an escaping exception is C14's subject; nothing is "reported valid" here
    end, lf = ref_p1.find(raw, 0x21), ref_p1.find(raw, 10)
    ident = ref_p1.ident_ok(raw[:lf + 1]) if lf >= 0 else False
    cs = ref_p1.checksum_field(raw, end)
    crc = ref.crc16_a001(raw[:end + 1])
    val = None if not isinstance(cs, list) else ((cs[0] * 16 + cs[1]) * 16 + cs[2]) * 16 + cs[3]
    if valid:
        if not ident:
            return ("valid-with-malformed-identification", f"readout {H(raw)} is_valid=True")
        if val is not None and val != crc:
            return ("valid-with-wrong-checksum", f"readout {H(raw)} is_valid=True, transmitted {val:04X}, CRC16 of '/'..'!' is {crc:04X}")
        exp = bytes(raw[lf + 1:end]) if lf < end else b""
        if r.payload != exp:
            return ("payload-differs", f"readout {H(raw)} payload {H(r.payload)} expected {H(exp)}")
    else:
        if ident and all(c < 128 for c in raw) and val is not None and val == crc and lf < end:
            return ("correct-readout-reported-invalid", f"readout {H(raw)} is_valid=False although ident, ASCII and checksum {crc:04X} are fine")
    return None


def judge_C04(w):
    try:
        rs = p1_readouts(w)
    except ValueError:
        return None                         # constructor refuses bytes without '/' or '!': no readout object, nothing claimed
    except Exception as e:
        return {"signature": "exception:" + exc_signature(e), "detail": repr(e)}
    for r in rs:
        v = c04_readout_checks(r, w.get("order", 0))
        if v:
            return {"signature": v[0], "detail": v[1] + f" (accessors used first: order {w.get('order', 0)})"}
    return None


def judge_C04_cutdep(w):
    try:
        a = p1_obs(p1_run(w["chunks_ref"])[1])
        b = p1_obs(p1_run(w["chunks"])[1])
    except Exception as e:
        return {"signature": "exception:" + exc_signature(e), "detail": repr(e)}
    if a != b:
        return {"signature": "readout-validity-depends-on-chunking", "detail": f"one call: {a}; chunks of sizes {[len(c) // 2 for c in w['chunks']]}: {b}"}
    return None


def observe_C04_cutdep(w):
    return p1_obs(p1_run(w["chunks"])[1])


def judge_p1_expect(w):
    """C05 / C16-P1: w["expect"] = readouts (hex) that must be delivered byte-identical and valid, in order; exact => nothing else."""
    try:
        _, rs = p1_run(w["chunks"])
        got = [(H(r.as_bytes), bool(r.is_valid)) for r in rs]
    except Exception as e:
        return {"signature": "exception:" + exc_signature(e), "detail": repr(e)}
    exp = w["expect"]
    short = lambda xs: [x[:24] + ".." if isinstance(x, str) and len(x) > 26 else x for x in xs]
    ctx = f"{len(w['chunks'])} chunks (sizes {[len(c) // 2 for c in w['chunks']][:12]}{'...' if len(w['chunks']) > 12 else ''}), {len(got)} readouts returned, {sum(1 for g in got if g[1])} valid, {len(exp)} expected"
    if w.get("exact"):
        if [g[0] for g in got] != exp:
            k = next((i for i, (a, b) in enumerate(zip([g[0] for g in got] + [None] * len(exp), exp)) if a != b), len(exp))
            return {"signature": "readouts-differ-from-sent", "detail": f"first difference at readout #{k}; {ctx}"}
        if not all(g[1] for g in got):
            k = [g[1] for g in got].index(False)
            return {"signature": "well-formed-readout-reported-invalid", "detail": f"readout #{k} invalid; {ctx}"}
    else:
        idx = 0
        for n, e in enumerate(exp):
            while idx < len(got) and not (got[idx][0] == e and got[idx][1]):
                idx += 1
            if idx == len(got):
                return {"signature": "readout-after-noise-not-delivered", "detail": f"expected readout #{n} {e[:40]}.. valid; {ctx}"}
            idx += 1
    return None


def judge_C05(w):
    return judge_p1_expect(w)


def observe_p1(w):
    return p1_obs(p1_run(w["chunks"])[1])


# ------------------------------------------------------------------------------------------------ C14 (no exception on noise)
def make_reader(name):
    from han import hdlc, dlde
    if name == "p1":
        return dlde.ModeDReader()
    cfg = {"hdlc": (False, False), "hdlc00": (False, False), "hdlc01": (False, True), "hdlc10": (True, False), "hdlc11": (True, True)}[name]
    return hdlc.HdlcFrameReader(*cfg)


def touch_message(m):
    out = [bool(m.is_valid), H(m.payload), H(m.as_bytes), m.message_type.name]
    hd = getattr(m, "header", None)
    if hd is not None:
        out += [hd.frame_length, H(hd.destination_address), H(hd.source_address), hd.control, hd.header_check_sequence, m.frame_check_sequence]
    return out


def c14_run(w):
    """returns observables; raises whatever the code under test raises"""
    import asyncio, warnings
    warnings.simplefilter("ignore")
    if w["mode"] == "reader":
        r = make_reader(w["reader"])
        out = []
        for ch in w["chunks"]:
            for m in r.read(bytes.fromhex(ch)):
                out.append(touch_message(m))
        return out
    from han import meter_connection as mc
    loop = asyncio.new_event_loop()
    asyncio.set_event_loop(loop)
    try:
        q = asyncio.Queue()
        cls = mc.SmartMeterMessagePayloadProtocol if w["mode"] == "payload" else mc.SmartMeterMessageProtocol
        p = cls(q, [make_reader(n) for n in w["readers"]])
        for ch in w["chunks"]:
            p.data_received(bytes.fromhex(ch))
        out = []
        while not q.empty():
            x = q.get_nowait()
            out.append(H(x) if isinstance(x, (bytes, bytearray)) else H(x.as_bytes))
        return out
    finally:
        asyncio.set_event_loop(None)
        loop.close()


def observe_C14(w):
    try:
        return c14_run(w)
    except Exception as e:
        return "exc:" + exc_signature(e)


def judge_C14(w):
    try:
        c14_run(w)
    except Exception as e:
        return {"signature": "exception:" + exc_signature(e), "detail": f"{type(e).__name__}: {e} ; mode={w['mode']} reader(s)={w.get('reader') or w.get('readers')} chunks={w['chunks']}"}
    if w.get("expect"):
        # "remains usable": the clean suffix must still come through (C16's guarantee)
        r = make_reader(w["reader"])
        got = []
        for ch in w["chunks"]:
            got += [(H(m.as_bytes), bool(m.is_valid)) for m in r.read(bytes.fromhex(ch))]
        idx = 0
        for e in w["expect"]:
            while idx < len(got) and not (got[idx][0] == e and got[idx][1]):
                idx += 1
            if idx == len(got):
                return {"signature": "reader-unusable-after-noise", "detail": f"clean message {e[:40]} not delivered after the noise; chunks={w['chunks']}"}
            idx += 1
    return None


# ------------------------------------------------------------------------------------------------ C19 (bounded reader memory)
def retained(obj, seen=None, by=None, path=""):
    """sum of the lengths of every sequence reachable from the reader object (octets held)"""
    seen = seen if seen is not None else set()
    if id(obj) in seen:
        return 0
    seen.add(id(obj))
    if isinstance(obj, (bytes, bytearray, str)):
        if by is not None:
            by[path] = by.get(path, 0) + len(obj)
        return len(obj)
    if isinstance(obj, (list, tuple, set)):
        return sum(retained(x, seen, by, path + "[]") for x in obj)
    if isinstance(obj, dict):
        return sum(retained(v, seen, by, path + "{}") for v in obj.values())
    if hasattr(obj, "__dict__") and type(obj).__module__.startswith("han."):
        return sum(retained(v, seen, by, (path + "." if path else "") + k) for k, v in vars(obj).items())
    return 0


def c19_limit(which):
    return 3 * (2048 if which.startswith("hdlc") else 8192)


def c19_run(w):
    which = w["which"]
    r = make_reader(which)
    stream = bytes.fromhex(w["prefix"]) + bytes.fromhex(w["period"]) * w["reps"]
    c = w["chunk"]
    worst, worst_by, at = 0, {}, 0
    for off in range(0, len(stream), c):
        ch = stream[off:off + c]
        r.read(ch)
        by = {}
        v = retained(r, by=by) - len(ch)
        if v > worst:
            worst, worst_by, at = v, by, off + len(ch)
    return worst, worst_by, at, len(stream)


def observe_C19(w):
    worst, _, _, n = c19_run(w)
    return [worst > c19_limit(w["which"]), n]


def judge_C19(w):
    try:
        worst, by, at, n = c19_run(w)
    except Exception as e:
        return {"signature": "exception:" + exc_signature(e), "detail": repr(e)}
    if worst > c19_limit(w["which"]):
        top = max(by, key=by.get)
        return {"signature": f"unbounded-retention:{'hdlc' if w['which'].startswith('hdlc') else 'p1'}:{top}",
                "detail": f"{w['which']} reader retains {worst} octets beyond the last chunk after {at} of {n} octets (limit {c19_limit(w['which'])}); "
                          f"stream = {w['prefix'][:40]} + ({w['period'][:40]}) x {w['reps']}, chunk {w['chunk']}; held in {top}={by[top]}"}
    return None


# ------------------------------------------------------------------------------------------------ C17 / C18 (ConnectionManager)
class StopScenario(KeyboardInterrupt):
    """more attempts than the scenario models: stop the run (KeyboardInterrupt passes through Task.__step)"""


def mc_run(w):
    """Replays a scenario on the REAL asyncio scheduler (SelectorEventLoop) driven by a fake clock."""
    import asyncio, warnings, logging
    from symx.vloop import RealVirtualLoop          # pure scheduler shim: no symbolic machinery is involved
    from . import c17_trace as CT
    import han.meter_connection as MC
    warnings.simplefilter("ignore")
    loop = RealVirtualLoop()
    asyncio.set_event_loop(loop)
    scale = 2
    now_units = lambda: int(round(loop.time() * scale))
    saved = MC.__dict__.get("datetime")
    MC.datetime = CT.fake_datetime_module(now_units, scale)
    prm = w["params"]
    CT.drive.alive.clear()
    P = lambda name, i: prm.get(f"{name}{i}", 0)
    quiescent = False
    try:
        def sched(fn):
            if w.get("T") is None:
                return
            def fire(d):
                if d > 0:
                    loop.call_soon(fire, d - 1)
                else:
                    fn()
            loop.call_at(w["T"] / scale, fire, w.get("D", 0))

        def configure(mgr):
            for k in ("connection_lost_back_off_threshold", "connection_lost_back_off_sleep_sec"):
                if k in w:
                    setattr(mgr, k, w[k])
            if "max_delay" in w:
                mgr.back_off_connect_error.max_delay = w["max_delay"]
        trace, transports, task, mgr = CT.drive(MC, loop, P, w["K"], StopScenario, sched, now_units, configure)
        close_first = CT.drive.last_close
        if w.get("second"):
            p2 = w["second"]
            CT.drive(MC, loop, lambda name, i: p2.get(f"{name}{i}", 0), 50, StopScenario, lambda fn: None, now_units, None)
            CT.drive.last_close = close_first
        try:
            if w.get("S") == 0:
                CT.drive.last_close()
            with CT.after_nth_handle(w.get("S") or None, CT.drive.last_close):
                quiescent = loop.run_until_quiescent(None) == "quiescent"      # ends when nothing is scheduled any more (or the scenario is cut)
        except StopScenario:
            quiescent = False
        cut = any(e[0] == "attempt" and e[1] >= w["K"] for e in trace)
        return trace, transports, quiescent and not cut, cut
    finally:
        MC.datetime = saved
        for t in asyncio.all_tasks(loop):
            t.cancel()
        asyncio.set_event_loop(None)
        try:
            loop.close()
        except Exception:
            pass


def observe_C17(w):
    trace, transports, q, cut = mc_run(w)
    return [list(e) for e in trace]


def judge_C17(w):
    from . import c17_trace as CT
    try:
        trace, transports, q, cut = mc_run(w)
    except Exception as e:
        return {"signature": "exception:" + exc_signature(e), "detail": repr(e)}
    res = CT.analyse_c17(trace, not cut, lambda a, b: a == b, sum(1 for t in transports if t.closed), len(transports))
    if res:
        return {"signature": res[0][0], "detail": f"{res[0][1]}; scenario K={w['K']} T={w.get('T')} D={w.get('D')} S={w.get('S')} params={w['params']}; trace={[tuple(e) for e in trace]}"[:1500]}
    return None


def judge_C18(w):
    from . import c17_trace as CT
    if w.get("sub") == "strategy":
        import han.meter_connection as MC
        b = MC.ExponentialBackOff()
        b.max_delay = w["max_delay"]
        n = 0
        for k, op in enumerate(w["ops"]):
            if op == "f":
                b.failure(); n += 1
            else:
                b.reset(); n = 0
            exp = 0 if n == 0 else min(2 ** (n - 1), w["max_delay"])
            if b.current_delay_sec != exp:
                return {"signature": "strategy-delay-differs", "detail": f"after ops {w['ops'][:k + 1]} with max_delay={w['max_delay']}: current_delay_sec={b.current_delay_sec}, expected {exp}"}
        return None
    try:
        trace, transports, q, cut = mc_run(w)
    except Exception as e:
        return {"signature": "exception:" + exc_signature(e), "detail": repr(e)}
    res = CT.analyse_c18(trace, w.get("max_delay", 60), w.get("connection_lost_back_off_threshold", 5), w.get("connection_lost_back_off_sleep_sec", 5), 2, lambda c: bool(c), min, max)
    if res:
        return {"signature": res[0][0], "detail": f"{res[0][1]}; scenario {({k: v for k, v in w.items() if k != 'params'})} params={w['params']}; trace={[tuple(e) for e in trace]}"[:1500]}
    return None


def judge_C18_strategy(w):
    return judge_C18(w)


def observe_C18(w):
    if w.get("sub") == "strategy":
        import han.meter_connection as MC
        b = MC.ExponentialBackOff(); b.max_delay = w["max_delay"]
        out = []
        for op in w["ops"]:
            (b.failure if op == "f" else b.reset)()
            out.append(b.current_delay_sec)
        return out
    return observe_C17(w)


def observe_C18_strategy(w):
    return observe_C18(w)


# ------------------------------------------------------------------------------------------------ C20 (OBIS)
def _grp(g):
    return tuple(g)


def judge_C20(w):
    from han import obis as O
    k = w["sub"]
    try:
        if k == "parse":
            exp = _grp(w["expect"])
            got = O.to_obis_tupple(w["text"])
            if tuple(got) != exp:
                return {"signature": "parse-groups-differ", "detail": f"to_obis_tupple({w['text']!r}) = {got}, expected {exp}"}
            o = O.Obis.from_string(w["text"])
            if o.as_tupple() != exp or (o.a, o.b, o.c, o.d, o.e, o.f) != exp:
                return {"signature": "parse-groups-differ", "detail": f"Obis.from_string({w['text']!r}).as_tupple() = {o.as_tupple()}, expected {exp}"}
            cdr = f"{exp[2]}.{exp[3]}.{exp[4]}"
            if o.to_group_cdr_str() != cdr:
                return {"signature": "cde-string-differs", "detail": f"to_group_cdr_str() = {o.to_group_cdr_str()!r}, expected {cdr!r}"}
        elif k == "malformed":
            try:
                got = O.to_obis_tupple(w["text"])
            except ValueError:
                return None
            return {"signature": "malformed-accepted", "detail": f"to_obis_tupple({w['text']!r}) = {got} although the string contains no digit.digit"}
        elif k == "eq":
            a, b = O.Obis(_grp(w["a"])), O.Obis(_grp(w["b"]))
            same = _grp(w["a"]) == _grp(w["b"])
            if (a == b) != same:
                return {"signature": "eq-differs-from-group-equality", "detail": f"Obis({w['a']}) == Obis({w['b']}) is {a == b}"}
            if same and hash(a) != hash(b):
                return {"signature": "equal-objects-hash-differently", "detail": f"groups {w['a']}"}
        elif k == "eqstr":
            a = O.Obis(_grp(w["a"]))
            exp = _grp(w["a"]) == _grp(w["expect"]) if w["expect"] is not None else False
            if (a == w["text"]) != exp:
                return {"signature": "eq-with-string-differs", "detail": f"Obis({w['a']}) == {w['text']!r} is {a == w['text']}, expected {exp}"}
        elif k == "roundtrip":
            g = _grp(w["groups"])
            s = O.Obis(g).to_reduced_str()
            try:
                back = O.Obis.from_string(s).as_tupple()
            except ValueError as e:
                return {"signature": "roundtrip-unparsable", "detail": f"Obis({g}).to_reduced_str() = {s!r} does not parse: {e}"}
            if back != g:
                return {"signature": "roundtrip-groups-differ", "detail": f"Obis({g}).to_reduced_str() = {s!r} parses to {back}"}
    except Exception as e:
        return {"signature": "exception:" + exc_signature(e), "detail": repr(e)}
    return None


def observe_C20(w):
    from han import obis as O
    k = w["sub"]
    if k in ("parse", "malformed"):
        try:
            return list(O.to_obis_tupple(w["text"]))
        except ValueError:
            return "ValueError"
    if k == "eq":
        return bool(O.Obis(_grp(w["a"])) == O.Obis(_grp(w["b"])))
    if k == "eqstr":
        return bool(O.Obis(_grp(w["a"])) == w["text"])
    if k == "roundtrip":
        return O.Obis(_grp(w["groups"])).to_reduced_str()
    return None


for _k in ("parse", "malformed", "eq", "eqstr", "roundtrip"):
    globals()["judge_C20_" + _k] = judge_C20
    globals()["observe_C20_" + _k] = observe_C20


# ------------------------------------------------------------------------------------------------ decoders (C07-C10)
def decoder_fn(meter, form):
    import importlib
    mod = importlib.import_module("han." + meter)
    return mod.decode_frame_content if form == "frame" else mod.decode_notification_body


def dec_obs(d):
    if not isinstance(d, dict):
        return repr(d)
    out = []
    for k in sorted(d):
        v = d[k]
        out.append([k, v if isinstance(v, str) else ("#" if isinstance(v, (int, float)) else "~")])
    return out


def observe_decoder(w):
    for b in w.get("before", []):
        try:
            decoder_fn(w["meter"], w["form"])(bytes.fromhex(b))
        except Exception:
            pass
    try:
        return dec_obs(decoder_fn(w["meter"], w["form"])(bytes.fromhex(w["data"])))
    except Exception as e:
        return "exc:" + type(e).__name__


def judge_decoder(w):
    from . import cosem_ref as CR
    data = bytes.fromhex(w["data"])
    try:
        exp = CR.expected(w["meter"], list(data), w["form"])
    except CR.Malformed as e:
        return None                      # not a well-formed documented list: outside C07-C10
    for b in w.get("before", []):
        try:
            decoder_fn(w["meter"], w["form"])(bytes.fromhex(b))          # earlier messages of the same process
        except Exception:
            pass
    try:
        got = decoder_fn(w["meter"], w["form"])(data)
    except Exception as e:
        return {"signature": "exception:" + exc_signature(e), "detail": f"{type(e).__name__}: {e}; {w['meter']} {w['form']} {w['data']}"}
    r = CR.compare_concrete(exp, got)
    if r:
        return {"signature": r[0], "detail": f"{w['meter']} {w['form']}: {r[1]}; data={w['data']}"}
    if w.get("other_form"):
        # frame and bare-body decoding agree (except the clock rules)
        try:
            got2 = decoder_fn(w["meter"], "body")(data[CR.split_frame(list(data))[1]:])
        except Exception as e:
            return {"signature": "exception:" + exc_signature(e), "detail": f"body decoding: {e!r}"}
        for k in set(got) | set(got2):
            if k != "meter_datetime" and got.get(k) != got2.get(k):
                return {"signature": "frame-and-body-disagree", "detail": f"{k}: frame {got.get(k)!r} body {got2.get(k)!r}"}
    return None


for _p in ("C07", "C08", "C09", "C10"):
    globals()["judge_" + _p] = judge_decoder
    globals()["observe_" + _p] = observe_decoder


# ------------------------------------------------------------------------------------------------ AutoDecoder (C12, C15)
DECODER_NAMES = ["Aidon_frame", "Kaifa_frame", "Kamstrup_frame", "P1", "Aidon_notification_body", "Kaifa_notification_body", "Kamstrup_notification_body"]


class Timeout(Exception):
    pass


def with_alarm(seconds, fn):
    import signal

    def on_alarm(signum, frame):
        raise Timeout()
    old = signal.signal(signal.SIGALRM, on_alarm)
    signal.setitimer(signal.ITIMER_REAL, seconds)
    try:
        return fn()
    finally:
        signal.setitimer(signal.ITIMER_REAL, 0)
        signal.signal(signal.SIGALRM, old)


def make_message(kind, data):
    from han import common, dlde, hdlc
    if kind == "payload":
        return data
    if kind == "dlms":
        return common.DlmsMessage(data)
    if kind == "readout":
        return dlde.DataReadout(data)
    r = hdlc.HdlcFrameReader(False)
    fr = r.read(data)
    return fr[0]


def autodecode(w):
    """w: data (hex), prev (None|0..6), via ('payload'|'dlms'|'hdlc'|'readout') -> (result, previous_success_decoder)"""
    from han import autodecoder
    d = autodecoder.AutoDecoder()
    d._AutoDecoder__previous_success = w.get("prev")
    data = bytes.fromhex(w["data"])
    via = w.get("via", "payload")
    if via == "payload":
        res = d.decode_message_payload(data)
    else:
        res = d.decode_message(make_message(via, data))
    return res, d.previous_success_decoder


def judge_C15_lemma(w):
    try:
        r, name, names = c12_lemma_run(w)
    except Exception as e:
        return {"signature": "exception-escapes-autodecoder-loop", "detail": f"{type(e).__name__}: {e}; accept={w['acc']} raises-ValueError={w['verr']} prev={w['prev']} via={w['via']}"}
    if r is not None and not isinstance(r, dict):
        return {"signature": "not-dict-or-none", "detail": repr(r)}
    return None


def observe_C15_lemma(w):
    try:
        r, name, _ = c12_lemma_run(w)
    except Exception as e:
        return "exc:" + type(e).__name__
    return [r, name]


def judge_C15(w):
    import datetime
    try:
        res, _ = with_alarm(w.get("seconds", 5), lambda: autodecode(w))
    except Timeout:
        return {"signature": "nontermination", "detail": f"no result within {w.get('seconds', 5)} s for the {len(w['data']) // 2}-octet input {w['data'][:120]} (prev={w.get('prev')}, via={w.get('via', 'payload')})"}
    except Exception as e:
        return {"signature": "exception:" + exc_signature(e), "detail": f"{type(e).__name__}: {e}; input {w['data'][:160]} prev={w.get('prev')} via={w.get('via', 'payload')}"}
    if res is not None and not isinstance(res, dict):
        return {"signature": "not-dict-or-none", "detail": repr(res)[:200]}
    return None


def observe_C15(w):
    if w.get("all"):
        import construct
        from han import autodecoder
        out = []
        data = bytes.fromhex(w["data"])
        for name, dec in autodecoder.AutoDecoder.payload_decoder_functions:
            try:
                r = with_alarm(5, lambda: dec(data))
                out.append("dict" if isinstance(r, dict) else type(r).__name__)
            except (construct.ConstructError, ValueError):
                out.append("rejects")
            except Timeout:
                out.append("timeout")
            except Exception as e:
                out.append("exc:" + type(e).__name__)
        return out
    try:
        res, name = with_alarm(5, lambda: autodecode(w))
    except Timeout:
        return "timeout"
    except Exception as e:
        return "exc:" + type(e).__name__
    return [None if res is None else sorted(res), name]


def judge_C12(w):
    """own-decoder claim: a genuine message is decoded by its meter's own decoder (fresh decoder or same-meter history)"""
    from . import cosem_ref as CR
    try:
        res, name = autodecode(w)
    except Exception as e:
        return {"signature": "exception:" + exc_signature(e), "detail": repr(e)}
    if name != w["own"]:
        return {"signature": "foreign-decoder-selected", "detail": f"genuine {w['own']} message decoded by {name}: {w['data'][:120]} (prev={w.get('prev')})"}
    if w.get("meter"):
        data = bytes.fromhex(w["data"])
        try:
            exp = CR.expected(w["meter"], list(data), w["form"])
        except CR.Malformed:
            return None
        r = CR.compare_concrete(exp, res)
        if r:
            return {"signature": r[0], "detail": f"AutoDecoder result: {r[1]}"}
    return None


def observe_C12(w):
    try:
        res, name = autodecode(w)
    except Exception as e:
        return "exc:" + type(e).__name__
    return [None if res is None else sorted(res), name]


def c12_lemma_run(w):
    """concrete stub decoders with the given accept vector on the real AutoDecoder"""
    import construct
    from han import autodecoder as AD, dlde, common, hdlc
    orig, orig_p1 = list(AD.AutoDecoder.payload_decoder_functions), dlde.decode_p1_readout
    names = [n for n, _ in orig]

    def mk(i):
        def dec(payload):
            if w["acc"][i]:
                return {} if w.get("empty", [False] * 9)[i] else {"decoder": i}
            raise (ValueError("no") if w["verr"][i] else construct.ConstructError("no"))
        return dec
    try:
        AD.AutoDecoder.payload_decoder_functions = [(names[i], mk(i)) for i in range(len(names))]
        if "P1" in names:
            dlde.decode_p1_readout = mk(names.index("P1"))
        d = AD.AutoDecoder()
        d._AutoDecoder__previous_success = None if w["prev"] < 0 else w["prev"]
        via = w["via"]
        if via == "payload":
            r = d.decode_message_payload(b"x")
        elif via == "dlms":
            r = d.decode_message(common.DlmsMessage(b"xxxxxx"))
        elif via == "hdlc":
            fr = hdlc.HdlcFrame()
            for o in bytes.fromhex("a00a0321137a24e67e7e")[:10]:
                fr.append(o)
            r = d.decode_message(fr) if fr.payload else None
        else:
            r = d.decode_message(dlde.DataReadout(b"/LGF5E360\r\n1-0:1.8.0(1*kWh)\r\n!\r\n"))
        return r, d.previous_success_decoder, names
    finally:
        AD.AutoDecoder.payload_decoder_functions = orig
        dlde.decode_p1_readout = orig_p1


def c12_history_run(w):
    import construct
    from han import autodecoder as AD
    orig = list(AD.AutoDecoder.payload_decoder_functions)
    names = ["D0", "D1", "D2"]

    def mk(i):
        def dec(payload):
            p = "A" if payload == b"A-payload" else "B"
            if w["acc"][f"{i}{p}"]:
                return {"decoder": i, "payload": p}
            raise (ValueError("no") if w["verr"][i] else construct.ConstructError("no"))
        return dec
    try:
        AD.AutoDecoder.payload_decoder_functions = [(names[i], mk(i)) for i in range(3)]
        d = AD.AutoDecoder()
        out = []
        for p in w["seq"]:
            r = d.decode_message_payload(b"A-payload" if p == "A" else b"B-payload")
            out.append([r, d.previous_success_decoder])
        return out, names
    finally:
        AD.AutoDecoder.payload_decoder_functions = orig


def observe_C12_history(w):
    return c12_history_run(w)[0]


def judge_C12_history(w):
    try:
        out, names = c12_history_run(w)
    except Exception as e:
        return {"signature": "exception:" + exc_signature(e), "detail": repr(e)}
    prev = None
    for k, (p, (r, name)) in enumerate(zip(w["seq"], out)):
        start = prev or 0
        first = next((i for i in [(start + j) % 3 for j in range(3)] if w["acc"][f"{i}{p}"]), None)
        if first is None:
            ok = r is None and name == (None if prev is None else names[prev])
        else:
            ok = r == {"decoder": first, "payload": p} and name == names[first]
            prev = first
        if not ok:
            return {"signature": "selection-history", "detail": f"call {k} of {''.join(w['seq'])} with accept={w['acc']}: result {r}, remembered {name}"}
    return None


def observe_C12_lemma(w):
    r, name, _ = c12_lemma_run(w)
    return [r, name]


def judge_C12_lemma(w):
    try:
        r, name, names = c12_lemma_run(w)
    except Exception as e:
        return {"signature": "exception:" + exc_signature(e), "detail": repr(e)}
    n = len(names)
    start = 0 if w["prev"] < 0 else w["prev"]
    first = next((i for i in [(start + k) % n for k in range(n)] if w["acc"][i]), None)
    if first is None:
        if r is not None or name != (None if w["prev"] < 0 else names[w["prev"]]):
            return {"signature": "selection-lemma", "detail": f"nobody accepts but result={r} remembered={name} (prev={w['prev']}, via={w['via']})"}
    elif r is None or r != ({} if w.get("empty", [False] * 9)[first] else {"decoder": first}) or name != names[first]:
        return {"signature": "selection-lemma", "detail": f"accept={w['acc']} prev={w['prev']} via={w['via']}: result={r} remembered={name}, expected decoder {first}"}
    return None


# ------------------------------------------------------------------------------------------------ C13 (protocol forwarding)
def c13_reference(plan, payload_proto):
    """plan[r][c] = list of messages (valid, kind) reader r returns at call c. -> expected queue content as (r, c, i) triples"""
    n_calls = len(plan[0]) if plan else 0
    selected, expect = None, []
    for c in range(n_calls):
        if selected is None:
            for r, calls in enumerate(plan):
                if any(m[0] for m in calls[c]):
                    selected = r
                    break
        if selected is not None:
            for i, m in enumerate(plan[selected][c]):
                if payload_proto:
                    if m[0] and m[1] == 2:
                        expect.append([selected, c, i])
                else:
                    expect.append([selected, c, i])
    return expect


def c13_stub_run(w):
    import asyncio, warnings
    from han import meter_connection as mc
    from han.common import MeterMessageBase, MeterMessageType, MeterReaderBase
    warnings.simplefilter("ignore")

    class Msg(MeterMessageBase):
        def __init__(self, key, valid, kind):
            self.key, self._v, self._k = key, valid, kind
        message_type = property(lambda s: MeterMessageType.UNKNOWN)
        is_valid = property(lambda s: s._v)
        as_bytes = property(lambda s: b"\x00")
        payload = property(lambda s: None if s._k == 0 else (b"" if s._k == 1 else b"P%d.%d.%d" % tuple(s.key)))

    class Reader(MeterReaderBase):
        def __init__(self, r, calls, clock):
            self.r, self.calls, self.clock = r, calls, clock
        is_in_hunt_mode = property(lambda s: bool(w["hunt"][s.r][s.clock[0]]) if "hunt" in w else True)

        def read(self, data):
            c = self.clock[0]             # plan[r][c] = what reader r makes of the c-th chunk (a candidate that is not fed a chunk loses it)
            return [Msg([self.r, c, i], bool(m[0]), m[1]) for i, m in enumerate(self.calls[c])]
    loop = asyncio.new_event_loop()
    asyncio.set_event_loop(loop)
    try:
        q = asyncio.Queue()
        cls = mc.SmartMeterMessagePayloadProtocol if w["proto"] == "payload" else mc.SmartMeterMessageProtocol
        clock = [0]
        p = cls(q, [Reader(r, calls, clock) for r, calls in enumerate(w["plan"])])
        for c in range(len(w["plan"][0])):
            clock[0] = c
            p.data_received(b"chunk")
        got = []
        while not q.empty():
            x = q.get_nowait()
            got.append([int(v) for v in x[1:].split(b".")] if isinstance(x, bytes) else list(x.key))
        return got
    finally:
        asyncio.set_event_loop(None)
        loop.close()


def observe_C13_stub(w):
    return c13_stub_run(w)


def judge_C13_stub(w):
    try:
        got = c13_stub_run(w)
    except Exception as e:
        return {"signature": "exception:" + exc_signature(e), "detail": repr(e)}
    exp = c13_reference(w["plan"], w["proto"] == "payload")
    if got != exp:
        return {"signature": f"forwarding-differs:{w['proto']}", "detail": f"plan (reader x call x (valid, payload kind)) = {w['plan']}: queue has {got}, expected {exp}"}
    return None


def c13_real_run(w):
    import asyncio, warnings
    from han import meter_connection as mc
    warnings.simplefilter("ignore")
    loop = asyncio.new_event_loop()
    asyncio.set_event_loop(loop)
    try:
        q = asyncio.Queue()
        cls = mc.SmartMeterMessagePayloadProtocol if w["proto"] == "payload" else mc.SmartMeterMessageProtocol
        p = cls(q, [make_reader(n) for n in w["readers"]])
        for ch in w["chunks"]:
            p.data_received(bytes.fromhex(ch))
        got = []
        while not q.empty():
            x = q.get_nowait()
            got.append(H(x) if isinstance(x, (bytes, bytearray)) else H(x.payload))
        return got
    finally:
        asyncio.set_event_loop(None)
        loop.close()


def observe_C13_real(w):
    return c13_real_run(w)


def judge_C13_real(w):
    try:
        got = c13_real_run(w)
    except Exception as e:
        return {"signature": "exception:" + exc_signature(e), "detail": repr(e)}
    if got != [e for e in w["expect"]]:
        return {"signature": f"clean-stream-payloads-differ:{w['proto']}", "detail": f"readers={w['readers']} chunks={w['chunks']}: queue {got}, expected {w['expect']}"}
    return None


# ------------------------------------------------------------------------------------------------ C11 (P1 parse / decode)
def p1_reference_parse(text):
    """IEC 62056-21 data block -> [(address, [(value, unit|None), ...]), ...]  (independent of han.dlde)"""
    out = []
    for line in text.replace("\r\n", "\n").split("\n"):
        if not line.strip():
            continue
        pos = 0
        while pos < len(line):
            op = line.find("(", pos)
            if op <= pos:
                break
            address = line[pos:op]
            values = []
            pos = op
            while pos < len(line) and line[pos] == "(":
                cl = line.find(")", pos)
                if cl < 0:
                    raise ValueError("unbalanced")
                body = line[pos + 1:cl]
                v, _, u = body.partition("*")
                values.append((v, u if "*" in body else None))
                pos = cl + 1
            out.append((address, values))
    return out


def p1_reference_decode(sets):
    import datetime, re
    from fractions import Fraction
    from . import cosem_ref as CR
    exp = {}
    for address, values in sets:
        if len(values) != 1:
            continue
        m = re.fullmatch(r"(?:(\d+)-)?(?:(\d+):)?(\d+)\.(\d+)(?:\.(\d+))?(?:\*(\d+))?", address)
        if not m:
            raise ValueError("address")
        cde = f"{int(m.group(3))}.{int(m.group(4))}.{int(m.group(5)) if m.group(5) is not None else None}"
        name = CR.NAMES.get(cde, cde)
        v, u = values[0]
        ul = u.lower() if u else None
        if ul in ("kw", "kwh", "kvar", "kvarh"):
            exp[name] = ("milli", Fraction(v) * 1000)
        elif ul in ("v", "a", "var", "varh"):
            exp[name] = ("float", Fraction(v))
        elif cde == "1.0.0":
            exp[name] = ("clock", datetime.datetime(2000 + int(v[0:2]), int(v[2:4]), int(v[4:6]), int(v[6:8]), int(v[8:10]), int(v[10:12])))
        else:
            exp[name] = ("text", v)
    return exp


def c11_compare(exp, got):
    if not isinstance(got, dict) or set(got) != set(exp):
        return ("field-names-differ", f"decoded keys {sorted(got) if isinstance(got, dict) else got!r}, expected {sorted(exp)}")
    for name, (k, e) in exp.items():
        g = got[name]
        if k == "milli":
            ok = isinstance(g, int) and e - 1 <= g <= e
        elif k == "float":
            ok = isinstance(g, float) and g == float(e)
        else:
            ok = g == e
        if not ok:
            return (f"value-differs:{k}", f"{name}: decoded {g!r}, transmitted {e!r}")
    return None


def c11_run(w):
    from han import dlde, autodecoder
    content = bytes.fromhex(w["content"])
    if w.get("before"):
        dlde.decode_p1_readout_content(bytes.fromhex(w["before"]))       # decoder history: must leave no trace in what follows
    res = {"parsed": [(d.address, [(v.value, v.unit) for v in d.values]) for d in dlde.parse_p1_readout_content(content)],
           "content": dlde.decode_p1_readout_content(content),
           "auto_payload": autodecoder.AutoDecoder().decode_message_payload(content)}
    if w.get("ident"):
        raw = bytes.fromhex(w["ident"]) + b"\r\n" + content + b"!\r\n"
        ro = dlde.DataReadout(raw)
        res["readout"] = dlde.decode_p1_readout(ro)
        res["auto_message"] = autodecoder.AutoDecoder().decode_message(ro)
    return res


def observe_C11(w):
    try:
        r = c11_run(w)
    except Exception as e:
        return "exc:" + type(e).__name__
    return [[a, [[v, u] for v, u in vs]] for a, vs in r["parsed"]]


def judge_C11(w):
    try:
        r = c11_run(w)
    except Exception as e:
        return {"signature": "exception:" + exc_signature(e), "detail": f"{type(e).__name__}: {e}; content={bytes.fromhex(w['content'])!r}"}
    text = bytes.fromhex(w["content"]).decode("ascii")
    ref_sets = p1_reference_parse(text)
    if [(a, vs) for a, vs in r["parsed"]] != ref_sets:
        return {"signature": "parsed-data-sets-differ", "detail": f"parsed {r['parsed']} expected {ref_sets}; content={text!r}"}
    exp = p1_reference_decode(ref_sets)
    c = c11_compare(exp, r["content"])
    if c:
        return {"signature": c[0], "detail": f"decode_p1_readout_content: {c[1]}; content={text!r}"}
    if r["auto_payload"] != r["content"]:
        return {"signature": "entry-points-disagree", "detail": f"AutoDecoder.decode_message_payload {r['auto_payload']} vs decode_p1_readout_content {r['content']}"}
    if "readout" in r:
        ident = bytes.fromhex(w["ident"]).decode("ascii")
        extra = dict(r["readout"])
        man, typ = extra.pop("meter_manufacturer_id", None), extra.pop("meter_type_id", None)
        if extra != r["content"] or r["auto_message"] != r["readout"]:
            return {"signature": "entry-points-disagree", "detail": f"decode_p1_readout {r['readout']} / AutoDecoder.decode_message {r['auto_message']} vs content {r['content']}"}
        rest = ident[5:]
        while len(rest) >= 2 and rest[0] == "\\" and (rest[1].isalnum() or rest[1] == "_") and len(rest) > 16:
            rest = rest[2:]
        if man != ident[1:4]:
            return {"signature": "manufacturer-id-differs", "detail": f"ident {ident!r}: manufacturer id {man!r}"}
    return None


# ------------------------------------------------------------------------------------------------ dispatch
def observe(prop, w):
    fn = globals().get("observe_" + prop + ("_" + w["sub"] if w.get("sub") else ""))
    if fn is None:
        if w.get("kind") == "hdlc":
            return observe_hdlc(w)
        if w.get("kind") == "p1":
            return observe_p1(w)
        raise KeyError("no observe for " + prop)
    return fn(w)


def judge(prop, w):
    fn = globals().get("judge_" + prop + ("_" + w["sub"] if w.get("sub") else ""))
    if fn is None:
        raise KeyError("no judge for " + prop)
    return fn(w)
