"""spec.cosem_ref — independent reference for the DLMS/COSEM push lists of Aidon, Kaifa and Kamstrup meters.

An A-XDR walker (tags and lengths are concrete, values may be solver terms), a serializer, the documented field tables (NEK HAN
specification / Swedish branch recommendation, as captured in the repository's fixtures) and, per meter, the EXPECTED dictionary as a
function of the transmitted registers. Nothing here imports han.* ."""
from fractions import Fraction

# ---- common field names by OBIS C.D.E (NEK "OBIS List Information" + Swedish branch list)
NAMES = {
    "0.2.129": "list_ver_id", "96.1.0": "meter_id", "0.0.5": "meter_id", "96.1.7": "meter_type", "96.1.1": "meter_type", "1.0.0": "meter_datetime",
    "1.7.0": "active_power_import", "2.7.0": "active_power_export", "3.7.0": "reactive_power_import", "4.7.0": "reactive_power_export",
    "21.7.0": "active_power_import_l1", "41.7.0": "active_power_import_l2", "61.7.0": "active_power_import_l3",
    "22.7.0": "active_power_export_l1", "42.7.0": "active_power_export_l2", "62.7.0": "active_power_export_l3",
    "23.7.0": "reactive_power_import_l1", "43.7.0": "reactive_power_import_l2", "63.7.0": "reactive_power_import_l3",
    "24.7.0": "reactive_power_export_l1", "44.7.0": "reactive_power_export_l2", "64.7.0": "reactive_power_export_l3",
    "31.7.0": "current_l1", "51.7.0": "current_l2", "71.7.0": "current_l3", "32.7.0": "voltage_l1", "52.7.0": "voltage_l2", "72.7.0": "voltage_l3",
    "1.8.0": "active_power_import_total", "2.8.0": "active_power_export_total", "3.8.0": "reactive_power_import_total", "4.8.0": "reactive_power_export_total",
}

# ---- Kaifa positional lists (NEK: list 1, list 2 single/three phase, list 3 single/three phase)
_K3_3P = ["list_ver_id", "meter_id", "meter_type", "active_power_import", "active_power_export", "reactive_power_import", "reactive_power_export",
          "current_l1", "current_l2", "current_l3", "voltage_l1", "voltage_l2", "voltage_l3", "meter_datetime",
          "active_power_import_total", "active_power_export_total", "reactive_power_import_total", "reactive_power_export_total"]
_K3_1P = _K3_3P[:8] + ["voltage_l1"] + _K3_3P[13:]
KAIFA_POSITIONAL = {1: ["active_power_import"], 9: _K3_1P[:9], 13: _K3_3P[:13], 14: _K3_1P, 18: _K3_3P}
KAIFA_SCALE = {"current_l1": 1000, "current_l2": 1000, "current_l3": 1000, "voltage_l1": 10, "voltage_l2": 10, "voltage_l3": 10}

# ---- Kamstrup scaling: currents 1/100 A (1/1000 A for CT meters: type number starts with 685), energies x 10 Wh
KAMSTRUP_CURRENT = ("31.7.0", "51.7.0", "71.7.0")
KAMSTRUP_ENERGY = ("1.8.0", "2.8.0", "3.8.0", "4.8.0")

SIZES = {0x06: 4, 0x0F: 1, 0x10: 2, 0x12: 2, 0x16: 1, 0x11: 1, 0x05: 4}
KIND = {0x00: "null", 0x01: "array", 0x02: "struct", 0x06: "u32", 0x09: "octets", 0x0A: "visible", 0x0F: "i8", 0x10: "i16", 0x12: "u16", 0x16: "enum"}


class Node:
    __slots__ = ("kind", "tag", "start", "end", "vstart", "children")

    def __init__(self, kind, tag, start, end, vstart, children=None):
        self.kind, self.tag, self.start, self.end, self.vstart, self.children = kind, tag, start, end, vstart, children

    def octets(self, o):
        return list(o[self.vstart:self.end])

    def __repr__(self):
        return f"<{self.kind} {self.start}:{self.end}>"


class Malformed(Exception):
    pass


def walk(o, pos, greedy=False):
    """one A-XDR item at pos (tags/lengths must be concrete ints)"""
    if pos >= len(o):
        raise Malformed("end of data")
    tag = o[pos]
    if not isinstance(tag, int):
        raise Malformed("symbolic tag")
    kind = KIND.get(tag)
    if kind is None:
        raise Malformed(f"unknown tag {tag:#x} at {pos}")
    if kind == "null":
        return Node("null", tag, pos, pos + 1, pos + 1)
    if kind in ("array", "struct"):
        n = o[pos + 1]
        if not isinstance(n, int):
            raise Malformed("symbolic count")
        kids, p = [], pos + 2
        while (p < len(o)) if greedy else (len(kids) < n):
            k = walk(o, p)
            kids.append(k)
            p = k.end
        return Node(kind, tag, pos, p, pos + 2, kids)
    if kind in ("octets", "visible"):
        n = o[pos + 1]
        if not isinstance(n, int) or pos + 2 + n > len(o):
            raise Malformed("bad string length")
        return Node(kind, tag, pos, pos + 2 + n, pos + 2)
    n = SIZES[tag]
    if pos + 1 + n > len(o):
        raise Malformed("truncated value")
    return Node(kind, tag, pos, pos + 1 + n, pos + 1)


def uint(octs):
    v = 0
    for b in octs:
        v = v * 256 + b
    return v


def sint(octs, ite=None):
    """two's complement of big-endian octets; ite(cond, a, b) for symbolic operands"""
    v = uint(octs)
    bias, half = 1 << (8 * len(octs)), 1 << (8 * len(octs) - 1)
    if ite is None:
        return v - bias if v >= half else v
    return ite(v >= half, v - bias, v)


def number(node, o, ite=None):
    octs = node.octets(o)
    if node.kind in ("i8", "i16"):
        return sint(octs, ite)
    return uint(octs)


def cde(obis_octets):
    return f"{obis_octets[2]}.{obis_octets[3]}.{obis_octets[4]}"


def dotted(obis_octets):
    return ".".join(str(b) for b in obis_octets)


def name_of(obis_octets):
    c = cde(obis_octets)
    return NAMES.get(c, c)


# ---------------------------------------------------------------------------------------------- frame wrapper
def split_frame(o):
    """LLC (3) + APDU tag 0F + invoke-id (4) + date-time field (00 | 09 0C + 12 | 0C + 12) -> (clock octets | None, body offset)"""
    if len(o) < 9 or o[3] != 0x0F:
        raise Malformed("not an LLC/APDU data-notification")
    p = 8
    if o[p] == 0x00:
        return None, p + 1
    if o[p] == 0x09:
        if o[p + 1] != 0x0C:
            raise Malformed("octet-string clock of wrong length")
        return (p + 2, p + 14), p + 14
    if o[p] == 0x0C:
        return (p + 1, p + 13), p + 13
    raise Malformed("unexpected date-time field")


def clock_fields(c, ite=None):
    """12 COSEM date-time octets -> dict of civil fields, microsecond, utc offset minutes (None = unspecified)"""
    dev_raw = c[9] * 256 + c[10]
    return dict(year=c[0] * 256 + c[1], month=c[2], day=c[3], hour=c[5], minute=c[6], second=c[7], hundredths=c[8], dev_raw=dev_raw, dev=sint(c[9:11], ite), status=c[11])


# ---------------------------------------------------------------------------------------------- expected dictionaries
# values: ("int", v) | ("scaled", reg, exp10) | ("ratio", reg, divisor) | ("text", [chars]) | ("clock", [12 octets]) | ("const", str)
def expect_aidon(o, body_pos, ite=None):
    root = walk(o, body_pos)
    if root.kind != "array":
        raise Malformed("aidon body is an array")
    exp = {"meter_manufacturer": ("const", "Aidon")}
    for el in root.children:
        k = el.children
        if el.kind != "struct" or len(k) < 2 or k[0].kind != "octets" or k[0].end - k[0].vstart != 6:
            raise Malformed("aidon element")
        name = name_of(k[0].octets(o))
        v = k[1]
        if v.kind == "visible":
            exp[name] = ("text", v.octets(o))
        elif v.kind == "octets":
            exp[name] = ("clock", v.octets(o))
        else:
            su = k[2]
            if su.kind != "struct" or su.children[0].kind != "i8" or su.children[1].kind != "enum":
                raise Malformed("scaler-unit")
            exp[name] = ("scaled", number(v, o, ite), number(su.children[0], o, ite))
    return exp


def _kaifa_value(name, v, o, ite):
    if v.kind in ("octets", "visible"):
        if name == "meter_datetime":
            return ("clock", v.octets(o))
        return ("text", v.octets(o))
    reg = number(v, o, ite)
    if name in KAIFA_SCALE:
        return ("ratio", reg, KAIFA_SCALE[name])
    return ("int", reg)


def expect_kaifa(o, body_pos, apdu_clock, ite=None):
    root = walk(o, body_pos)
    if root.kind != "struct":
        raise Malformed("kaifa body is a structure")
    exp = {"meter_manufacturer": ("const", "Kaifa")}
    items = root.children
    obis_tagged = len(items) >= 2 and len(items) % 2 == 0 and all(it.kind == "octets" and it.end - it.vstart == 6 for it in items[0::2])
    if obis_tagged:
        for ob, v in zip(items[0::2], items[1::2]):
            name = name_of(ob.octets(o))
            exp[name] = _kaifa_value(name, v, o, ite)
        if apdu_clock is not None and "meter_datetime" not in exp:
            pass          # OBIS lists carry their own clock; the APDU clock of such frames is null in every documented layout
    else:
        names = KAIFA_POSITIONAL.get(len(items))
        if names is None:
            raise Malformed("undocumented Kaifa list length")
        if apdu_clock is not None:
            exp["meter_datetime"] = ("clock", list(apdu_clock))
        for name, v in zip(names, items):
            exp[name] = _kaifa_value(name, v, o, ite)          # the list's own clock element wins over the APDU clock
    return exp


def expect_kamstrup(o, body_pos, apdu_clock, ite=None, is_ct=None):
    """is_ct: callable(meter type chars) -> bool (decides 685-prefix, may fork on the symbolic side)"""
    root = walk(o, body_pos, greedy=True)
    if root.kind != "struct":
        raise Malformed("kamstrup body is a structure")
    items = [it for it in root.children if it.kind != "null"]
    if not items or items[0].kind != "visible":
        raise Malformed("list version string first")
    exp = {"meter_manufacturer": ("const", "Kamstrup"), "list_ver_id": ("text", items[0].octets(o))}
    rest = items[1:]
    if len(rest) % 2:
        raise Malformed("obis/value pairs")
    ct = False
    for ob, v in zip(rest[0::2], rest[1::2]):
        if ob.kind != "octets" or ob.end - ob.vstart != 6:
            raise Malformed("obis expected")
        if cde(ob.octets(o)) == "96.1.1" and v.kind in ("visible", "octets"):
            chars = v.octets(o)
            ct = (is_ct(chars) if is_ct else (len(chars) >= 3 and chars[0] == 0x36 and chars[1] == 0x38 and chars[2] == 0x35))
    for ob, v in zip(rest[0::2], rest[1::2]):
        c = cde(ob.octets(o))
        name = NAMES.get(c)
        if name is None:
            raise Malformed("OBIS code outside the documented Kamstrup lists")
        if v.kind == "visible":
            exp[name] = ("text", v.octets(o))
        elif v.kind == "octets":
            exp[name] = ("clock", v.octets(o)) if name == "meter_datetime" else ("text", v.octets(o))
        else:
            reg = number(v, o, ite)
            if c in KAMSTRUP_CURRENT:
                exp[name] = ("ratio2", reg, 1000 if ct else 100)
            elif c in KAMSTRUP_ENERGY:
                exp[name] = ("int", reg * 10)
            else:
                exp[name] = ("int", reg)
    if apdu_clock is not None:
        exp["meter_datetime"] = ("clock", list(apdu_clock))       # frames: the APDU date-time is the meter clock
    return exp


def expected(meter, o, form, ite=None, is_ct=None):
    """form: 'frame' | 'body'"""
    if form == "frame":
        clk, pos = split_frame(o)
        clock = None if clk is None else list(o[clk[0]:clk[1]])
    else:
        clock, pos = None, 0
    if meter == "aidon":
        return expect_aidon(o, pos, ite)
    if meter == "kaifa":
        return expect_kaifa(o, pos, clock, ite)
    return expect_kamstrup(o, pos, clock, ite, is_ct)


# ---------------------------------------------------------------------------------------------- concrete comparison
def concrete_clock(c):
    """datetime the 12 octets denote, by the COSEM blue book 4.1.6.1 (None components are outside C10's domain)"""
    import datetime as dt
    f = clock_fields(c)
    us = 0 if f["hundredths"] == 0xFF else f["hundredths"] * 10000
    tz = None if f["dev_raw"] == 0x8000 else dt.timezone(dt.timedelta(minutes=-f["dev"]))
    return dt.datetime(f["year"], f["month"], f["day"], f["hour"], f["minute"], f["second"], us, tz)


def ulps_apart(a, b):
    import struct
    ia, ib = struct.unpack(">q", struct.pack(">d", a))[0], struct.unpack(">q", struct.pack(">d", b))[0]
    return abs(ia - ib)


def compare_concrete(exp, got):
    """-> None | (signature, detail)"""
    if not isinstance(got, dict):
        return ("not-a-dictionary", repr(got))
    if set(got) != set(exp):
        return ("field-names-differ", f"missing {sorted(set(exp) - set(got))} unexpected {sorted(set(got) - set(exp))}")
    for name, e in exp.items():
        g = got[name]
        k = e[0]
        if k == "const":
            ok = g == e[1]
        elif k == "int":
            ok = isinstance(g, int) and g == e[1]
        elif k == "text":
            ok = isinstance(g, str) and g == bytes(e[1]).decode("ascii")
        elif k == "clock":
            try:
                ok = g == concrete_clock(e[1]) and (g.tzinfo is None) == (concrete_clock(e[1]).tzinfo is None)
            except (ValueError, TypeError):
                continue                       # date-time outside C10's validity domain: nothing claimed
        elif k == "scaled":
            exact = Fraction(e[1]) * Fraction(10) ** e[2]
            want = int(exact) if exact.denominator == 1 and e[2] == 0 else float(exact)
            ok = (g == want) and (not isinstance(g, float) or ulps_apart(g, float(exact)) == 0)
            if exact.denominator == 1 and isinstance(g, int):
                ok = g == exact
        elif k == "ratio":
            ok = isinstance(g, (int, float)) and float(g) == float(Fraction(e[1], e[2]))
        elif k == "ratio2":
            ok = isinstance(g, (int, float)) and ulps_apart(float(g), float(Fraction(e[1], e[2]))) <= 2
        else:
            ok = False
        if not ok:
            return (f"value-differs:{k}", f"{name}: decoded {g!r}, transmitted {e[1:] if k != 'text' else bytes(e[1])!r}")
    return None
