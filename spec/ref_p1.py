"""spec.ref_p1 — IEC 62056-21 mode D reference definitions, independent of the repository's code.
The predicates use only ==, <=, >= and Python control flow, so they run on plain ints and, executed by the symbolic
engine, on solver terms (each comparison on a symbolic character is then a fork of the path)."""
from . import ref

WS = (9, 10, 11, 12, 13, 28, 29, 30, 31, 32)          # str.strip() whitespace within ASCII


def isin(c, consts):
    for k in consts:
        if c == k:
            return True
    return False


def between(c, lo, hi):
    return bool(c >= lo) and bool(c <= hi)


def is_upper(c): return between(c, 65, 90)
def is_letter(c): return between(c, 65, 90) or between(c, 97, 122)
def is_digit(c): return between(c, 48, 57)
def is_word(c): return is_digit(c) or is_letter(c) or bool(c == 95)
def is_printable(c): return between(c, 32, 126)


def is_ws(c):
    return between(c, 9, 13) or between(c, 28, 32)


def strip_ws(chars):
    d = list(chars)
    while d and is_ws(d[0]):
        d.pop(0)
    while d and is_ws(d[-1]):
        d.pop()
    return d


def ident_ok(line):
    """line: char codes of the first line (through its LF). Well-formed identification message:
    '/' XXX Z [\\W]* ident(0..16 printable) with optional surrounding white space / CR LF."""
    for c in line:
        if not bool(c < 128):
            return False
    s = strip_ws(line)
    if len(s) < 5 or not bool(s[0] == 47):
        return False
    if not (is_upper(s[1]) and is_upper(s[2]) and is_letter(s[3]) and is_digit(s[4])):
        return False
    rest = s[5:]
    while len(rest) >= 2 and bool(rest[0] == 92) and is_word(rest[1]):
        if len(rest) <= 16 and all_printable(rest):
            return True                       # the remaining text also fits as the identification itself
        rest = rest[2:]
    return len(rest) <= 16 and all_printable(rest)


def all_printable(cs):
    for c in cs:
        if not is_printable(c):
            return False
    return True


def hex_value(c):
    """value of one hex digit character, or None"""
    if between(c, 48, 57):
        return c - 48
    if between(c, 65, 70):
        return c - 55
    if between(c, 97, 102):
        return c - 87
    return None


def checksum_field(octets, end_pos):
    """text after '!' stripped of white space; returns list of 4 digit values when it is a 4-hex-digit checksum, 'none' when empty,
    else 'other' (not a checksum in the standard's sense: nothing is claimed about it)."""
    tail = list(octets[end_pos + 1:])
    for c in tail:
        if not bool(c < 128):
            return "other"
    txt = strip_ws(tail)
    if not txt:
        return "none"
    if len(txt) != 4:
        return "other"
    vals = []
    for c in txt:
        v = hex_value(c)
        if v is None:
            return "other"
        vals.append(v)
    return vals


def find(octets, x, start=0):
    for i in range(start, len(octets)):
        if octets[i] == x:
            return i
    return -1


def hexdigit(n):
    return "0123456789ABCDEF"[n]


def build_readout(ident, lines, checksum=True, eol=b"\r\n"):
    """concrete well-formed readout: ident line, data lines, '!' + CRC16 as 4 upper-case hex digits"""
    body = list(ident) + list(eol)
    for ln in lines:
        body += list(ln) + list(eol)
    body += [0x21]
    if checksum:
        c = ref.crc16_a001(body)
        body += [ord(ch) for ch in f"{c:04X}"]
    body += list(eol)
    return body
