"""Trace oracle shared by the symbolic harness and the concrete judge of C17/C18.

A trace is a list of events (kind, i, t, extra): t in half-seconds (int, or a solver term on the symbolic side).
  ("attempt", i, t, pending_tasks)  factory called        ("connected", i, t)  factory returned a transport
  ("failed", i, t)                  factory raised        ("tclose", i, t)     transport.close() first called
  ("close", -1, t)                  manager.close()       ("loop_done", -1, t) connect_loop() returned
`same(a, b)` decides equality of two instants, `le(a, b)` a <= b (for every input of the path on the symbolic side)."""


def analyse_c17(trace, quiescent, same, closed_transports, n_transports, steady_from=2):
    """returns a list of (signature, detail)"""
    out = []
    live = 0
    close_idx = next((k for k, e in enumerate(trace) if e[0] == "close"), None)
    for k, e in enumerate(trace):
        if e[0] == "connected":
            live += 1
            if live > 1:
                out.append(("two-live-connections", f"event #{k} {e[:2]}: a second transport while one is live"))
        elif e[0] == "tclose":
            live -= 1
        elif e[0] == "attempt":
            if live > 0:
                out.append(("attempt-while-connected", f"event #{k}: attempt {e[1]} started while a transport is live"))
            if close_idx is not None and k > close_idx:
                out.append(("attempt-after-close", f"event #{k}: connection attempt {e[1]} started after close()"))
    if close_idx is not None:
        t_close = trace[close_idx][2]
        done = [e for e in trace if e[0] == "loop_done"]
        if not done:
            out.append(("connect_loop-does-not-return-after-close", "connect_loop() still running at quiescence/horizon"))
        elif not same(done[0][2], t_close) and trace.index(done[0]) > close_idx:
            out.append(("connect_loop-returns-late-after-close", "connect_loop() returned later than the instant of close() (waited out a back-off or a pending attempt)"))
        if closed_transports < n_transports:
            out.append(("transport-left-open-after-close", f"{n_transports - closed_transports} of {n_transports} transports obtained by the manager never closed"))
    else:
        # keeps reconnecting: every failure / loss before the cut is followed by another attempt
        for k, e in enumerate(trace):
            if e[0] in ("failed", "tclose") and quiescent:
                if not any(x[0] == "attempt" for x in trace[k + 1:]):
                    out.append(("stops-reconnecting", f"after event #{k} {e[:2]} no further attempt although close() was never called"))
                    break
    # bounded pending tasks: once in steady state, a reconnect cycle must not leave more pending tasks than the previous one
    counts = [e[3] for e in trace if e[0] == "attempt"]
    for a, b, n in zip(counts[steady_from - 1:], counts[steady_from:], range(steady_from, len(counts))):
        if b > a:
            out.append(("pending-tasks-grow-per-cycle", f"pending tasks at the start of attempts: {counts} (attempt {n} has more than attempt {n - 1})"))
            break
    return out


class Frac:
    """n / scale seconds, comparable with numbers without division (works for ints and solver terms)"""
    def __init__(self, n, scale): self.n, self.scale = n, scale
    def __lt__(self, x): return self.n < x * self.scale
    def __le__(self, x): return self.n <= x * self.scale
    def __gt__(self, x): return self.n > x * self.scale
    def __ge__(self, x): return self.n >= x * self.scale


class VDelta:
    def __init__(self, n, scale): self.n, self.scale = n, scale
    def total_seconds(self): return Frac(self.n, self.scale)


class VTime:
    def __init__(self, n, scale): self.n, self.scale = n, scale
    def __sub__(self, o): return VDelta(self.n - o.n, self.scale)
    def __bool__(self): return True


def fake_datetime_module(now_units, scale):
    """stand-in for the `datetime` module inside han.meter_connection: only datetime.datetime.utcnow() is used there"""
    import types
    dt = types.SimpleNamespace(utcnow=lambda: VTime(now_units(), scale), now=lambda tz=None: VTime(now_units(), scale))
    return types.SimpleNamespace(datetime=dt)


def drive(MC, loop, P, K, cut_exc, sched, now_units, configure=None):
    """Runs a real ConnectionManager against a scripted connection factory on `loop`.
    P(name, i) -> parameter (int or solver term): ok_i, lat_i (s), lost_i, life_i (s).  sched(T_units, fn) schedules the close() call.
    Returns (trace, transports, main_task, manager). The caller runs the loop."""
    import asyncio
    trace, transports, attempts = [], [], [0]

    def pending():
        return sum(1 for t in asyncio.all_tasks(loop) if not t.done())

    class Tr(asyncio.BaseTransport):
        def __init__(self, i):
            super().__init__()
            self.i, self.closed, self.proto = i, False, None

        def _down(self, exc):
            if not self.closed:
                self.closed = True
                trace.append(("tclose", self.i, now_units()))
                loop.call_soon(self.proto.connection_lost, exc)

        def close(self):
            self._down(None)

        def lose(self):
            self._down(OSError("connection lost"))

        def get_extra_info(self, name, default=None):
            return None

    async def factory():
        i = attempts[0]
        attempts[0] += 1
        trace.append(("attempt", i, now_units(), pending()))
        if i >= K:
            raise cut_exc()
        lat = P("lat", i)
        if lat > 0:
            await asyncio.sleep(lat)
        if P("ok", i) == 1:
            tr = Tr(i)
            pr = MC.SmartMeterMessageProtocol(asyncio.Queue(), [])
            tr.proto = pr
            pr.connection_made(tr)
            transports.append(tr)
            trace.append(("connected", i, now_units()))
            if P("lost", i) == 1:
                loop.call_later(P("life", i), tr.lose)
            return tr, pr
        trace.append(("failed", i, now_units()))
        raise OSError("connection refused")

    mgr = MC.ConnectionManager(factory)
    if configure:
        configure(mgr)

    async def main():
        await mgr.connect_loop()
        trace.append(("loop_done", -1, now_units()))

    task = loop.create_task(main())

    def do_close():
        trace.append(("close", -1, now_units()))
        mgr.close()
    sched(do_close)
    drive.last_close = do_close
    drive.alive.append((trace, transports, task, mgr, factory))      # keep every manager's objects referenced for the whole run (no GC of pending tasks)
    return trace, transports, task, mgr


drive.alive = []


def analyse_c18(trace, max_delay, threshold, sleep_sec, scale, holds, mn, mx):
    """Pacing oracle. holds(cond) -> bool (for every input of the path on the symbolic side); mn/mx: min/max on ints or terms.
    Returns list of (signature, detail)."""
    out = []
    n_fail = 0                 # consecutive failed attempts since the last success
    last_fail_t = None
    last_loss_t = None         # instant of the previous loss of an established connection
    breaker = False            # two losses within the threshold: the next attempt must wait at least sleep_sec
    pending_loss_t = None      # loss that the next attempt follows
    closed = False
    for k, e in enumerate(trace):
        kind, i, t = e[0], e[1], e[2]
        if kind == "close":
            closed = True
        elif kind == "failed":
            n_fail += 1
            last_fail_t = t
            pending_loss_t = None
        elif kind == "connected":
            n_fail = 0
            last_fail_t = None
        elif kind == "tclose" and not closed:
            if last_loss_t is not None:
                breaker_now = (t - last_loss_t) < threshold * scale
            else:
                breaker_now = False
            breaker = breaker_now
            last_loss_t = t
            pending_loss_t = t
        elif kind == "attempt" and i > 0 and not closed:
            if last_fail_t is not None and pending_loss_t is None:
                backoff = mn(2 ** (n_fail - 1), max_delay)
                lo = backoff * scale
                # the breaker flag set by an earlier pair of losses stays armed until the next loss re-evaluates it
                hi = mx(backoff, sleep_sec) * scale
                if not holds(t - last_fail_t >= lo):
                    out.append(("attempt-sooner-than-back-off", f"event #{k}: attempt {i} after {n_fail} consecutive failure(s) starts before min(2^(n-1), max_delay) s have passed"))
                if not holds(t - last_fail_t <= hi):
                    out.append(("attempt-later-than-back-off", f"event #{k}: attempt {i} after {n_fail} failure(s) starts later than max(back-off, breaker sleep)"))
            elif pending_loss_t is not None:
                b = breaker
                armed = b if isinstance(b, bool) else None
                if armed is None:
                    # symbolic comparison: decide it (forks are fine here, the manager made the same comparison)
                    armed = bool(b)
                if armed and not holds(t - pending_loss_t >= sleep_sec * scale):
                    out.append(("breaker-sleep-not-honoured", f"event #{k}: attempt {i} starts less than the configured sleep after the second loss within the threshold"))
                if not holds(t - pending_loss_t <= sleep_sec * scale):
                    out.append(("attempt-later-than-breaker-sleep", f"event #{k}: attempt {i} after a loss starts later than the breaker sleep"))
                if not armed and not holds(t - pending_loss_t <= 0):
                    out.append(("reconnect-delayed-without-reason", f"event #{k}: attempt {i} after a single loss is delayed"))
    return out


class after_nth_handle:
    """context manager: calls fn() right after the n-th event-loop handle (callback / timer / task step) has run - i.e. between
    two consecutive callbacks of the loop, wherever they are. Works for any loop that runs asyncio.Handle objects."""
    def __init__(self, n, fn):
        self.n, self.fn, self.count = n, fn, 0

    def __enter__(self):
        import asyncio.events as ev
        self._ev = ev
        self._orig = ev.Handle._run
        me = self

        def _run(handle):
            r = me._orig(handle)
            me.count += 1
            if me.n is not None and me.count == me.n:
                me.fn()
            return r
        ev.Handle._run = _run
        return self

    def __exit__(self, *a):
        self._ev.Handle._run = self._orig
