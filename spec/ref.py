"""spec.ref — reference definitions (the oracles), written once from the standards, independent of the repository's code.
Every function works on plain ints and, when given an `ite` (if-then-else on possibly symbolic operands), on solver terms."""


def _ite(c, a, b):
    return a if c else b


def fcs16(octets, ite=_ite):
    """RFC 1662 FCS-16, bit-serial: generator x^16+x^12+x^5+1 reflected (0x8408), initial value 0xFFFF, result complemented."""
    crc = 0xFFFF
    for b in octets:
        crc = crc ^ b
        for _ in range(8):
            crc = ite(crc & 1, (crc >> 1) ^ 0x8408, crc >> 1)
    return crc ^ 0xFFFF


def fcs16_register(octets, ite=_ite, init=0xFFFF):
    crc = init
    for b in octets:
        crc = crc ^ b
        for _ in range(8):
            crc = ite(crc & 1, (crc >> 1) ^ 0x8408, crc >> 1)
    return crc


def crc16_a001(octets, ite=_ite):
    """CRC-16 (x^16+x^15+x^2+1 reflected = 0xA001), initial value 0, no final xor."""
    crc = 0
    for b in octets:
        crc = crc ^ b
        for _ in range(8):
            crc = ite(crc & 1, (crc >> 1) ^ 0xA001, crc >> 1)
    return crc


FLAG, ESC = 0x7E, 0x7D


def unstuff(octets):
    """ISO/IEC 13239 octet transparency (concrete octets): 7D x -> x^20; a trailing lone 7D is dropped."""
    out, esc = [], False
    for o in octets:
        if esc:
            out.append(o ^ 0x20); esc = False
        elif o == ESC:
            esc = True
        else:
            out.append(o)
    return out


def stuff(octets):
    out = []
    for o in octets:
        if o in (FLAG, ESC):
            out += [ESC, o ^ 0x20]
        else:
            out.append(o)
    return out


def parse_address(octets, pos):
    """Extended address (ISO/IEC 13239 4.7.1): octets up to and including the first one with the low bit set. -> end or None"""
    q = pos
    while q < len(octets):
        if octets[q] & 1:
            return q + 1
        q += 1
    return None


def frame_fields(octets):
    """Independent location of the fields of a complete HDLC frame (type 3). None when the header does not fit."""
    n = len(octets)
    if n < 2:
        return None
    d_end = parse_address(octets, 2)
    if d_end is None:
        return None
    s_end = parse_address(octets, d_end)
    if s_end is None or s_end + 3 > n:
        return None
    return dict(length=((octets[0] << 8) | octets[1]) & 0x7FF, dst=(2, d_end), src=(d_end, s_end), control=s_end,
                hcs=(s_end + 1, s_end + 3), info=s_end + 3)


def frame_is_intact(octets):
    n = len(octets)
    if n < 2:
        return False
    if (((octets[0] << 8) | octets[1]) & 0x7FF) != n:
        return False
    f = fcs16(octets[:n - 2])
    return octets[n - 2] == (f & 0xFF) and octets[n - 1] == (f >> 8)


def build_frame(dst, src, control, payload, fmt_type=0xA, seg=0):
    """Well-formed HDLC frame type 3 (without flags). dst/src: address octet lists (low bit set on the last only)."""
    n = 2 + len(dst) + len(src) + 1 + 2 + (len(payload) + 2 if payload else 0)
    hdr = [(fmt_type << 4) | (seg << 3) | (n >> 8), n & 0xFF] + list(dst) + list(src) + [control]
    h = fcs16(hdr)
    body = hdr + [h & 0xFF, h >> 8]
    if payload:
        body += list(payload)
        f = fcs16(body)
        body += [f & 0xFF, f >> 8]
    return body
