"""symx.seq — concrete-length sequences of (possibly symbolic) octets / characters, and the builtins that read them."""
from __future__ import annotations
import z3
from . import core
from .core import SBool, EngineLimit
from .ints import SInt, LInt, term, unify, concretize
from .real import SReal, SDec


def _b(x):
    return bool(x)


class SSeq:
    def __init__(self, items=()):
        if isinstance(items, SSeq):
            items = items._d
        elif isinstance(items, int):
            items = [0] * items
        self._d = list(items)

    def __len__(self): return len(self._d)
    def __iter__(self): return iter(self._d)

    def __getitem__(self, i):
        if isinstance(i, slice):
            return type(self)(self._d[i])
        return self._d[concretize(i)]

    def __contains__(self, x):
        if isinstance(x, (bytes, bytearray, str, SSeq)):          # sub-sequence test, as bytes/str do
            sub = [ord(c) for c in x] if isinstance(x, str) else list(x)
            return self._find_sub(sub) >= 0 if sub else True
        return any(_b(e == x) for e in self._d)

    def symbolic(self):
        return any(isinstance(x, SInt) for x in self._d)

    def find(self, x, start=0, end=None):
        if not isinstance(x, (int, SInt)):
            return self._find_sub(list(x), start, end)
        n = len(self._d)
        end = n if end is None else min(end, n)
        d = self._d
        for i in range(max(start, 0), end):
            e = d[i]
            if (e == x) if type(e) is int and type(x) is int else _b(e == x):
                return i
        return -1

    def _find_sub(self, sub, start=0, end=None):
        n = len(self._d)
        end = n if end is None else min(end, n)
        m = len(sub)
        for i in range(max(start, 0), end - m + 1):
            if all(_b(self._d[i + k] == sub[k]) for k in range(m)):
                return i
        return -1

    def rfind(self, x, start=0, end=None):
        n = len(self._d)
        end = n if end is None else (min(end, n) if end >= 0 else max(n + end, 0))
        start = max(start, 0) if start >= 0 else max(n + start, 0)
        sub = [x] if isinstance(x, (int, SInt)) else ([ord(c) for c in x] if isinstance(x, str) else list(x))
        m = len(sub)
        for i in range(end - m, start - 1, -1):
            if all((self._d[i + k] == sub[k]) if type(self._d[i + k]) is int and type(sub[k]) is int else _b(self._d[i + k] == sub[k]) for k in range(m)):
                return i
        return -1

    def rindex(self, x, start=0, end=None):
        i = self.rfind(x, start, end)
        if i < 0:
            raise ValueError("subsection not found")
        return i

    def index(self, x, start=0, end=None):
        i = self.find(x, start, end)
        if i < 0:
            raise ValueError("subsection not found")
        return i

    def count(self, x):
        return sum(1 for e in self._d if _b(e == x))

    def seq_eq(self, other):
        other = other if isinstance(other, SSeq) else SSeq(list(other))
        if len(self) != len(other):
            return z3.BoolVal(False)
        cs = []
        for a, b in zip(self._d, other._d):
            if isinstance(a, SInt) or isinstance(b, SInt):
                r = (a == b) if isinstance(a, SInt) else (b == a)
                cs.append(r.t)
            elif a != b:
                return z3.BoolVal(False)
        return z3.And(cs) if cs else z3.BoolVal(True)

    def __eq__(self, other):
        if not isinstance(other, (SSeq, bytes, bytearray)):
            return NotImplemented
        return SBool(self.seq_eq(other))

    def __ne__(self, other):
        r = self.__eq__(other)
        return r if r is NotImplemented else ~r

    __hash__ = None

    def __add__(self, o): return type(self)(self._d + list(o))
    def __radd__(self, o): return type(self)(list(o) + self._d)
    def __mul__(self, k): return type(self)(self._d * k)
    def __bool__(self): return len(self._d) > 0
    def __repr__(self): return f"{type(self).__name__}(len={len(self._d)})"

    def startswith(self, p):
        p = list(p) if not isinstance(p, str) else [ord(c) for c in p]
        return len(p) <= len(self._d) and all(_b(a == b) for a, b in zip(self._d, p))

    def endswith(self, p):
        p = list(p) if not isinstance(p, str) else [ord(c) for c in p]
        n = len(p)
        return n <= len(self._d) and all(_b(a == b) for a, b in zip(self._d[len(self._d) - n:], p))

    def model_values(self, model):
        from .ints import model_int
        return [model_int(model, x) for x in self._d]


BWS = (9, 10, 11, 12, 13, 32)


class SBytes(SSeq):
    def splitlines(self, keepends=False):
        """bytes.splitlines: line boundaries are \n, \r and \r\n only"""
        out, cur, i, d = [], [], 0, self._d
        n = len(d)
        while i < n:
            c = d[i]
            if _in(c, (10, 13)):
                end = [c]
                if _b(c == 13) and i + 1 < n and _b(d[i + 1] == 10):
                    i += 1
                    end.append(d[i])
                out.append(type(self)(cur + (end if keepends else []))); cur = []
            else:
                cur.append(c)
            i += 1
        if cur:
            out.append(type(self)(cur))
        return out

    def hex(self, *a):
        if not self.symbolic():
            return bytes(self._d).hex(*a)
        return "<symbolic>"

    def isascii(self):
        return all(_b(c < 128) for c in self._d)

    def decode(self, encoding="utf-8", errors="strict"):
        enc = encoding.lower().replace("_", "-")
        if enc not in ("ascii", "us-ascii", "utf-8", "utf8"):
            raise EngineLimit("decode " + encoding)
        if not self.symbolic():
            return bytes(self._d).decode(encoding, errors)
        out = []
        for i, c in enumerate(self._d):
            if _b(c >= 128):
                if errors == "strict":
                    if enc.startswith("utf"):
                        raise EngineLimit("non-ASCII symbolic octet under utf-8")
                    raise UnicodeDecodeError("ascii", b"?" * len(self._d), i, i + 1, "ordinal not in range(128)")
                if errors == "ignore":
                    continue
                out.append(0xFFFD)
            else:
                out.append(c)
        return SStr._mk(out)

    def _strip(self, chars, left, right):
        ws = BWS if chars is None else tuple(chars)
        d = list(self._d)
        while left and d and any(_b(d[0] == c) for c in ws):
            d.pop(0)
        while right and d and any(_b(d[-1] == c) for c in ws):
            d.pop()
        return type(self)(d)

    def strip(self, chars=None): return self._strip(chars, True, True)
    def lstrip(self, chars=None): return self._strip(chars, True, False)
    def rstrip(self, chars=None): return self._strip(chars, False, True)


class SByteArray(SBytes):
    def append(self, x): self._d.append(x)
    def extend(self, xs): self._d.extend(list(xs))
    def clear(self): self._d.clear()
    def __iadd__(self, xs): self._d.extend(list(xs)); return self
    def __setitem__(self, i, v): self._d[i] = v
    def __delitem__(self, i): del self._d[i]
    def pop(self, i=-1): return self._d.pop(i)


SWS = (9, 10, 11, 12, 13, 28, 29, 30, 31, 32, 133, 160)
LINE_ENDS = (10, 11, 12, 13, 28, 29, 30, 133)


def _in(c, consts):
    if isinstance(c, SInt):
        r = None
        for k in consts:
            e = (c == k)
            r = e if r is None else (r | e)
        return _b(r)
    return c in consts


class SStr(SSeq):
    """String as a list of code points (int | SInt)."""

    def __init__(self, items=()):
        if isinstance(items, str):
            items = [ord(c) for c in items]
        super().__init__(items)

    @staticmethod
    def _mk(items):
        if not any(isinstance(x, SInt) for x in items):
            return "".join(map(chr, items))
        return SStr(items)

    def __getitem__(self, i):
        if isinstance(i, slice):
            return SStr._mk(self._d[i])
        return SStr._mk([self._d[concretize(i)]])

    def __iter__(self):
        return (SStr._mk([c]) for c in self._d)

    def __eq__(self, other):
        if isinstance(other, str):
            other = SStr(other)
        if not isinstance(other, SStr):
            return NotImplemented
        return SBool(self.seq_eq(other))

    def __ne__(self, other):
        r = self.__eq__(other)
        return r if r is NotImplemented else ~r

    def __hash__(self):
        # dict/set membership of a symbolic string: enumerate its feasible values (forks), then hash the concrete text
        return hash("".join(chr(concretize(c)) for c in self._d))

    def __add__(self, o): return SStr._mk(self._d + list(SStr(o)._d if isinstance(o, str) else o._d))
    def __radd__(self, o): return SStr._mk(list(SStr(o)._d) + self._d)
    def __str__(self): raise EngineLimit("str() of a symbolic string")
    def __format__(self, spec): return "<symbolic str>"   # reaches only messages of exceptions and logs
    def __repr__(self): return f"SStr(len={len(self._d)})"

    def _sstrip(self, chars, left, right):
        ws = SWS if chars is None else tuple(ord(c) for c in chars)
        d = list(self._d)
        while left and d and _in(d[0], ws): d.pop(0)
        while right and d and _in(d[-1], ws): d.pop()
        return SStr._mk(d)

    def strip(self, chars=None): return self._sstrip(chars, True, True)
    def lstrip(self, chars=None): return self._sstrip(chars, True, False)
    def rstrip(self, chars=None): return self._sstrip(chars, False, True)

    def splitlines(self, keepends=False):
        out, cur, i, d = [], [], 0, self._d
        n = len(d)
        while i < n:
            c = d[i]
            if _in(c, LINE_ENDS):
                end = [c]
                if _b(c == 13) and i + 1 < n and _b(d[i + 1] == 10):
                    i += 1
                    end.append(d[i])
                out.append(SStr._mk(cur + (end if keepends else []))); cur = []
            else:
                cur.append(c)
            i += 1
        if cur:
            out.append(SStr._mk(cur))
        return out

    def find(self, sub, start=0, end=None):
        sub = [ord(ch) for ch in sub] if isinstance(sub, str) else list(sub._d)
        return self._find_sub(sub, start, end)

    def split(self, sep=None, maxsplit=-1):
        if sep is None:
            out, cur, n = [], [], 0
            d = list(self._d)
            i = 0
            while i < len(d):
                if _in(d[i], SWS):
                    if cur:
                        out.append(SStr._mk(cur)); cur = []; n += 1
                else:
                    if maxsplit >= 0 and n >= maxsplit and not cur:
                        rest = d[i:]
                        while rest and _in(rest[-1], SWS):
                            rest.pop()
                        out.append(SStr._mk(rest)); return out
                    cur.append(d[i])
                i += 1
            if cur:
                out.append(SStr._mk(cur))
            return out
        sp = [ord(ch) for ch in sep] if isinstance(sep, str) else list(sep._d)
        if not sp:
            raise ValueError("empty separator")
        out, start, i, n, d, m = [], 0, 0, 0, self._d, len(sp)
        while i + m <= len(d) and (maxsplit < 0 or n < maxsplit):
            if all(_b(d[i + k] == sp[k]) for k in range(m)):
                out.append(SStr._mk(d[start:i])); i += m; start = i; n += 1
            else:
                i += 1
        out.append(SStr._mk(d[start:]))
        return out

    def partition(self, sep):
        sp = [ord(ch) for ch in sep] if isinstance(sep, str) else list(sep._d)
        i = self._find_sub(sp)
        if i < 0:
            return (SStr._mk(list(self._d)), "", "")
        return (SStr._mk(self._d[:i]), SStr._mk(sp), SStr._mk(self._d[i + len(sp):]))

    def rpartition(self, sep):
        sp = [ord(ch) for ch in sep] if isinstance(sep, str) else list(sep._d)
        last = -1
        for i in range(len(self._d) - len(sp), -1, -1):
            if all(_b(self._d[i + k] == sp[k]) for k in range(len(sp))):
                last = i
                break
        if last < 0:
            return ("", "", SStr._mk(list(self._d)))
        return (SStr._mk(self._d[:last]), SStr._mk(sp), SStr._mk(self._d[last + len(sp):]))

    def replace(self, old, new, count=-1):
        o = [ord(ch) for ch in old] if isinstance(old, str) else list(old._d)
        nw = [ord(ch) for ch in new] if isinstance(new, str) else list(new._d)
        if not o:
            raise EngineLimit("replace of the empty string")
        out, i, d, n = [], 0, self._d, 0
        while i < len(d):
            if i + len(o) <= len(d) and (count < 0 or n < count) and all(_b(d[i + k] == o[k]) for k in range(len(o))):
                out += nw; i += len(o); n += 1
            else:
                out.append(d[i]); i += 1
        return SStr._mk(out)

    def _all(self, pred):
        return len(self._d) > 0 and all(pred(c) for c in self._d)

    def isdigit(self): return self._all(lambda c: _b((c >= 48) & (c <= 57)))
    isdecimal = isnumeric = isdigit
    def isalpha(self): return self._all(lambda c: _b(((c >= 65) & (c <= 90)) | ((c >= 97) & (c <= 122))))
    def isalnum(self): return self._all(lambda c: _b(((c >= 48) & (c <= 57)) | ((c >= 65) & (c <= 90)) | ((c >= 97) & (c <= 122))))
    def isspace(self): return self._all(lambda c: _in(c, SWS))
    def isupper(self): return any(_b((c >= 65) & (c <= 90)) for c in self._d) and not any(_b((c >= 97) & (c <= 122)) for c in self._d)
    def islower(self): return any(_b((c >= 97) & (c <= 122)) for c in self._d) and not any(_b((c >= 65) & (c <= 90)) for c in self._d)
    def isprintable(self): return all(_b((c >= 32) & (c <= 126)) for c in self._d)

    def count(self, sub, *a):
        sp = [ord(ch) for ch in sub] if isinstance(sub, str) else list(sub._d)
        n, i = 0, 0
        while i + len(sp) <= len(self._d):
            if all(_b(self._d[i + k] == sp[k]) for k in range(len(sp))):
                n += 1; i += max(1, len(sp))
            else:
                i += 1
        return n

    def join(self, items):
        out, first = [], True
        for it in items:
            if not first:
                out += list(self._d)
            first = False
            out += list(it._d) if isinstance(it, SStr) else [ord(ch) for ch in it]
        return SStr._mk(out)

    def zfill(self, width):
        d = list(self._d)
        return SStr._mk([48] * max(0, width - len(d)) + d)

    def rfind(self, sub, *a):
        sp = [ord(ch) for ch in sub] if isinstance(sub, str) else list(sub._d)
        for i in range(len(self._d) - len(sp), -1, -1):
            if all(_b(self._d[i + k] == sp[k]) for k in range(len(sp))):
                return i
        return -1

    def casefold(self): return self.lower()
    def title(self): raise EngineLimit("str.title")
    def __mod__(self, o): raise EngineLimit("%-formatting of a symbolic string")

    def lower(self):
        out = []
        for c in self._d:
            if isinstance(c, SInt):
                t = c.t
                out.append(SInt(z3.If(z3.And(t >= term(65, t), t <= term(90, t)), t + term(32, t), t)))
            else:
                out.append(ord(chr(c).lower()))
        return SStr._mk(out)

    def upper(self):
        out = []
        for c in self._d:
            if isinstance(c, SInt):
                t = c.t
                out.append(SInt(z3.If(z3.And(t >= term(97, t), t <= term(122, t)), t - term(32, t), t)))
            else:
                out.append(ord(chr(c).upper()))
        return SStr._mk(out)

    def isascii(self):
        return all(_b(c < 128) for c in self._d)

    def encode(self, encoding="utf-8", errors="strict"):
        if not self.isascii():
            raise EngineLimit("encode of non-ASCII symbolic string")
        return SBytes(self._d)


# ------------------------------------------------------------------------------- builtins that read sequences
def _digit_val(c, base):
    """value of char code c in base (forks); None if not a digit."""
    if not isinstance(c, SInt):
        try:
            return int(chr(c), base)
        except ValueError:
            return None
    if _b((c >= 48) & (c <= (57 if base >= 10 else 47 + base))):
        return c - 48
    if base > 10:
        if _b((c >= 65) & (c <= 54 + base)):
            return c - 55
        if _b((c >= 97) & (c <= 86 + base)):
            return c - 87
    return None


def sym_int(x=0, base=10):
    if isinstance(x, SReal):
        return x.__trunc__()
    if isinstance(x, SDec):
        return SReal(x.as_real()).__trunc__()
    if isinstance(x, SInt):
        return x
    if isinstance(x, SBytes):
        x = x.decode("ascii") if x.isascii() else (_ for _ in ()).throw(ValueError("invalid literal for int()"))
    if isinstance(x, SStr):
        x = x.strip()
    if isinstance(x, SStr):
        d = list(x._d)
        neg = False
        if d and _in(d[0], (43, 45)):          # optional sign (forks when symbolic)
            neg = _b(d[0] == 45)
            d = d[1:]
        if base == 16 and len(d) >= 2 and _b(d[0] == 48) and _in(d[1], (120, 88)):
            d = d[2:]
        if not d:
            raise ValueError(f"invalid literal for int() with base {base}")
        acc, prev_digit = 0, False
        for i, c in enumerate(d):
            if _b(c == 95):                      # PEP 515: single underscores between digits
                if not prev_digit or i == len(d) - 1:
                    raise ValueError(f"invalid literal for int() with base {base}")
                prev_digit = False
                continue
            v = _digit_val(c, base)
            if v is None:
                raise ValueError(f"invalid literal for int() with base {base}")
            acc = acc * base + v
            prev_digit = True
        return -acc if neg else acc
    if isinstance(x, str):
        return int(x, base)
    return int(x)


def sym_float(x=0.0):
    if isinstance(x, (SDec, SInt, SReal)):
        return SReal.of(x)
    if isinstance(x, SStr):
        x = x.strip()
    if isinstance(x, SStr):
        d = list(x._d)
        if not d:
            raise ValueError("could not convert string to float")
        num, frac, seen_dot, ndig = 0, 0, False, 0
        for c in d:
            if _b(c == 46):
                if seen_dot:
                    raise ValueError("could not convert string to float")
                seen_dot = True
                continue
            if not _b((c >= 48) & (c <= 57)):
                if _in(c, (43, 45, 69, 101, 95, 73, 105, 78, 110)):   # sign, exponent, underscore, inf/nan letters
                    # literal syntax outside the decimal model: enumerate the feasible texts (forks) and let the real float() decide
                    return float("".join(chr(concretize(ch)) for ch in d))
                raise ValueError("could not convert string to float")
            num = num * 10 + (c - 48)
            ndig += 1
            frac += 1 if seen_dot else 0
        if ndig == 0:
            raise ValueError("could not convert string to float")
        if ndig > 15:
            raise EngineLimit("more than 15 digits")
        n = SReal.of(num)
        return n if frac == 0 else n / (10 ** frac)
    return float(x)


def sym_round(x, nd=None):
    if isinstance(x, (SReal, SInt)):
        return x.__round__(nd)
    return round(x, nd) if nd is not None else round(x)


def sym_len(x):
    return x.__len__()


def sym_str_of(v):
    """decimal rendering of an int-like as char codes (forks on the digit count)."""
    if isinstance(v, SInt):
        if _b(v < 0):
            raise EngineLimit("negative symbolic int in an f-string")
        if _b(v < 10):
            return [v + 48]
        if _b(v < 100):
            return [v // 10 + 48, v % 10 + 48]
        if _b(v < 1000):
            return [v // 100 + 48, (v // 10) % 10 + 48, v % 10 + 48]
        raise EngineLimit("symbolic int >= 1000 in an f-string")
    if isinstance(v, SStr):
        return list(v._d)
    return [ord(c) for c in format(v, "")]


def fstr(*parts):
    out = []
    for p in parts:
        out.extend(sym_str_of(p))
    return SStr._mk(out)


def sym_str(x=""):
    """str(): objects whose (rewritten) __str__ yields a symbolic string are passed through; symbolic ints are rendered digit by digit"""
    if isinstance(x, SStr):
        return x
    if isinstance(x, SInt):
        return SStr._mk(sym_str_of(x))
    if isinstance(x, (SBytes, SReal, SDec)):
        raise EngineLimit("str() of a symbolic " + type(x).__name__)
    f = getattr(type(x), "__str__", None)
    if f is not None and f is not object.__str__ and not isinstance(x, (str, int, float, bytes, bytearray, type(None), bool, tuple, list, dict)):
        return f(x)
    return str(x)
