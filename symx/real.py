"""symx.real — binary64 in the relative-error model (SReal) and exact decimals (SDec)."""
from __future__ import annotations
from fractions import Fraction
from decimal import Decimal
import z3
from . import core
from .core import SBool, EngineLimit
from .ints import SInt, is_bv, term

RN = z3.Function("rn", z3.RealSort(), z3.RealSort())   # correct rounding to binary64
U = z3.RealVal(Fraction(1, 2 ** 53))


def _int_term_as_real(x):
    t = x.t
    return z3.ToReal(z3.BV2Int(t, True) if is_bv(t) else t)


POW10_RANGE = 6


def pow10_term(e):
    """10**e as a real term for a symbolic integer exponent known to lie in -6..6 (checked by one query)"""
    if isinstance(e, int):
        return z3.RealVal(Fraction(10) ** e)
    t = e.t
    t = z3.BV2Int(t, True) if is_bv(t) else t
    ok, _ = core.ENG.valid(z3.And(t >= -POW10_RANGE, t <= POW10_RANGE))
    if not ok:
        raise EngineLimit("symbolic decimal exponent outside -6..6")
    r = z3.RealVal(Fraction(10) ** POW10_RANGE)
    for k in range(POW10_RANGE - 1, -POW10_RANGE - 1, -1):
        r = z3.If(t == k, z3.RealVal(Fraction(10) ** k), r)
    return r


class SDec:
    """num * 10**exp: the Decimal shapes the decoders produce. exp: concrete int or symbolic integer (no fork: see pow10_term)."""

    def __init__(self, num, exp):
        self.num = num if isinstance(num, SInt) else SInt(z3.IntVal(int(num)))
        self.exp = exp

    @staticmethod
    def of(d):
        if isinstance(d, SDec):
            return d
        if isinstance(d, Decimal):
            sign, digits, exp = d.as_tuple()
            if not isinstance(exp, int):
                raise EngineLimit("non-finite Decimal")
            n = int("".join(map(str, digits)) or "0") * (-1 if sign else 1)
            return SDec(n, exp)
        if isinstance(d, (int, SInt)):
            return SDec(d, 0)
        raise TypeError(type(d))

    def __mul__(self, o):
        if isinstance(o, (float, SReal)):
            raise TypeError("unsupported operand type(s) for *: 'decimal.Decimal' and 'float'")
        o = SDec.of(o)
        return SDec(self.num * o.num, self.exp + o.exp)

    __rmul__ = __mul__

    def as_real(self):
        return _int_term_as_real(self.num) * pow10_term(self.exp)

    def __eq__(self, o):
        if isinstance(o, (int, SInt, Decimal, SDec)):
            return SBool(self.as_real() == SDec.of(o).as_real())
        return NotImplemented

    def _cmp(f):
        def g(self, o):
            if isinstance(o, (int, SInt, Decimal, SDec)):
                return SBool(f(self.as_real(), SDec.of(o).as_real()))
            return NotImplemented
        return g

    __lt__ = _cmp(lambda a, b: a < b)
    __le__ = _cmp(lambda a, b: a <= b)
    __gt__ = _cmp(lambda a, b: a > b)
    __ge__ = _cmp(lambda a, b: a >= b)

    def __add__(self, o):
        o = SDec.of(o)
        e = min(self.exp, o.exp) if isinstance(self.exp, int) and isinstance(o.exp, int) else None
        if e is None:
            raise EngineLimit("Decimal addition with a symbolic exponent")
        return SDec(self.num * 10 ** (self.exp - e) + o.num * 10 ** (o.exp - e), e)

    __radd__ = __add__

    def __neg__(self):
        return SDec(-self.num, self.exp)

    def __sub__(self, o):
        return self + (-SDec.of(o))

    def __rsub__(self, o):
        return SDec.of(o) + (-self)

    def __trunc__(self):
        return SReal(self.as_real()).__trunc__()

    __int__ = __trunc__

    def __round__(self, nd=None):
        return SReal(self.as_real()).__round__(nd)

    def __bool__(self):
        return bool(SBool(self.as_real() != 0))

    def __ne__(self, o):
        r = self.__eq__(o)
        return r if r is NotImplemented else ~r

    __hash__ = None

    def __repr__(self):
        return f"SDec({self.num}e{self.exp})"


class SReal:
    def __init__(self, t, exact=None):
        self.t = t
        self.exact = exact        # exact real this float is the correct rounding of (when known)
        self.round_int = None

    @staticmethod
    def of(x):
        if isinstance(x, SReal):
            return x
        if isinstance(x, SInt):
            r = _int_term_as_real(x)
            return SReal(r, exact=r)              # |x| < 2**53 in every use: exact
        if isinstance(x, bool):
            x = int(x)
        if isinstance(x, (int, float, Fraction)):
            r = z3.RealVal(Fraction(x))
            return SReal(r, exact=r)
        if isinstance(x, SDec):
            return SReal._rn(x.as_real())
        raise TypeError(type(x))

    @staticmethod
    def _rn(q):
        r = RN(q)
        core.ENG.relaxations += 1
        a = z3.If(q >= 0, q, -q)
        core.ENG.add(z3.And(r - q <= U * a, q - r <= U * a))
        return SReal(r, exact=q)

    def _binop(self, o, f):
        if isinstance(o, (SDec, Decimal)):
            raise TypeError("unsupported operand type(s): 'float' and 'decimal.Decimal'")
        return SReal._rn(f(self.t, SReal.of(o).t))

    def __mul__(self, o): return self._binop(o, lambda a, b: a * b)
    __rmul__ = __mul__
    def __add__(self, o): return self._binop(o, lambda a, b: a + b)
    __radd__ = __add__
    def __sub__(self, o): return self._binop(o, lambda a, b: a - b)
    def __rsub__(self, o): return SReal.of(o)._binop(self, lambda a, b: a - b)

    def __truediv__(self, o):
        if isinstance(o, int) and not isinstance(o, bool) and o > 0 and (o & (o - 1)) == 0:
            return SReal(self.t / o, exact=self.t / o)
        return self._binop(o, lambda a, b: a / b)

    def __rtruediv__(self, o): return SReal.of(o)._binop(self, lambda a, b: a / b)
    def __neg__(self): return SReal(-self.t)
    def __pos__(self): return self
    def __abs__(self): return SReal(z3.If(self.t >= 0, self.t, -self.t))

    def __floordiv__(self, o):
        q = self / o
        k = q.__floor__()
        return SReal(z3.ToReal(k.t))

    def __mod__(self, o):
        # IEEE fmod/python % with a positive constant modulus: x - m*floor(x/m), computed exactly (the quotient's rounding is kept)
        if not isinstance(o, (int, float, Fraction)) or o <= 0:
            raise EngineLimit("float modulo by a non-constant / non-positive")
        m = z3.RealVal(Fraction(o))
        k = z3.Int(core.ENG.fresh_name("fmod"))
        core.ENG.add(z3.And(z3.ToReal(k) * m <= self.t, self.t < (z3.ToReal(k) + 1) * m))
        return SReal(self.t - z3.ToReal(k) * m)

    def __divmod__(self, o):
        return (self // o, self % o)

    def __pow__(self, e):
        if isinstance(e, int) and 0 <= e <= 3:
            r = SReal.of(1)
            for _ in range(e):
                r = r * self
            return r
        raise EngineLimit("float power")

    def _cmp(f):
        def g(self, o):
            if isinstance(o, (int, float, Fraction, SInt, SReal)):
                return SBool(f(self.t, SReal.of(o).t))
            return NotImplemented
        return g

    __eq__ = _cmp(lambda a, b: a == b)
    __ne__ = _cmp(lambda a, b: a != b)
    __lt__ = _cmp(lambda a, b: a < b)
    __le__ = _cmp(lambda a, b: a <= b)
    __gt__ = _cmp(lambda a, b: a > b)
    __ge__ = _cmp(lambda a, b: a >= b)
    __hash__ = None

    def __trunc__(self):
        k = z3.Int(core.ENG.fresh_name("trunc"))
        x, kr = self.t, z3.ToReal(k)
        core.ENG.add(z3.If(x >= 0, z3.And(kr <= x, x < kr + 1), z3.And(kr >= x, x > kr - 1)))
        return SInt(k)

    def __floor__(self):
        k = z3.Int(core.ENG.fresh_name("floor"))
        core.ENG.add(z3.And(z3.ToReal(k) <= self.t, self.t < z3.ToReal(k) + 1))
        return SInt(k)

    def __ceil__(self):
        k = z3.Int(core.ENG.fresh_name("ceil"))
        core.ENG.add(z3.And(z3.ToReal(k) >= self.t, self.t > z3.ToReal(k) - 1))
        return SInt(k)

    def __round__(self, nd=None):
        k = z3.Int(core.ENG.fresh_name("round"))
        s = z3.RealVal(10 ** (nd or 0))
        half = z3.RealVal("1/2")
        core.ENG.add(z3.And(z3.ToReal(k) - half <= self.t * s, self.t * s <= z3.ToReal(k) + half))
        # ties: CPython rounds half to even on the exact binary value; both neighbours are admitted here
        # (over-approximation, sound for unsat; sat answers are replayed with real floats)
        if nd is None:
            return SInt(k)
        r = SReal._rn(z3.ToReal(k) / s)
        r.round_int = SInt(k)
        return r

    def __int__(self):
        raise EngineLimit("int() of a symbolic float: the module needs the injected int")

    def __float__(self):
        raise EngineLimit("float() of a symbolic float: the module needs the injected float")

    def __repr__(self):
        return f"SReal({z3.simplify(self.t)})"


def within_rounding(got, exact, ulps=1):
    """z3 Bool: got (SReal | number) is within `ulps` roundings of the exact real term."""
    g = SReal.of(got).t
    a = z3.If(exact >= 0, exact, -exact)
    return z3.And(g - exact <= ulps * U * a, exact - g <= ulps * U * a)


def real_term(x):
    if isinstance(x, SReal):
        return x.t
    if isinstance(x, SInt):
        return _int_term_as_real(x)
    if isinstance(x, SDec):
        return x.as_real()
    if isinstance(x, bool):
        x = int(x)
    if isinstance(x, (int, float, Fraction)):
        return z3.RealVal(Fraction(x))
    return None


def num_ifexp(c, a, b):
    """conditional expression without a fork when the condition is symbolic and both arms are numbers: the result is the real-valued
    term If(c, a, b) (the int/float type distinction of the arms is not kept)."""
    if not isinstance(c, SBool):
        return a() if c else b()
    try:
        va, vb = a(), b()
    except (core.PathAbort, core.EngineLimit, core.EngineFault):
        raise
    except Exception:
        return a() if bool(c) else b()
    ta, tb = real_term(va), real_term(vb)
    if ta is None or tb is None:
        return va if bool(c) else vb
    if isinstance(va, (int, SInt)) and isinstance(vb, (int, SInt)):
        from .ints import unify
        x, y = unify(va, vb)
        return SInt(z3.If(c.t, x, y))
    r = SReal(z3.If(c.t, ta, tb))
    r.either = (c, va, vb)
    return r
