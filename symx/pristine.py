"""symx.pristine — worker process that runs concrete scenarios on the UNMODIFIED repository code.

Started as `python -m symx.pristine` with PYTHONPATH=/repo:/verif. Nothing of the symbolic machinery is injected
here: `han` is imported as it is in /repo's working tree, with the real re/struct/io/datetime/float/asyncio.
Protocol: one JSON object per line on stdin  {"op": "observe"|"judge", "prop": "C06", "w": {...witness...}}
          one JSON object per line on stdout {"obs": ...} | {"verdict": null | {"signature":..., "detail":...}} | {"error": ...}
"""
import sys, json, logging, traceback


def main():
    logging.disable(logging.CRITICAL)
    from spec import concrete
    out = sys.stdout
    sys.stdout = sys.stderr            # anything the code under test prints must not corrupt the protocol
    for line in sys.stdin:
        job = json.loads(line)
        try:
            if job["op"] == "observe":
                res = {"obs": concrete.observe(job["prop"], job["w"])}
            else:
                res = {"verdict": concrete.judge(job["prop"], job["w"])}
        except BaseException as e:      # the worker reports, the caller judges
            res = {"error": f"{type(e).__name__}: {e}", "tb": traceback.format_exc()[-1500:]}
        out.write(json.dumps(res) + "\n")
        out.flush()


if __name__ == "__main__":
    main()
