"""symx.regex — interpreter for `re` patterns over sequences of (possibly symbolic) code points.
Built from re._parser's parse tree; mirrors sre's backtracking order so group spans agree with `re`."""
import re
import re._parser as P
import re._constants as C
import z3
from .core import SBool, EngineLimit
from .ints import SInt, term
from .seq import SStr

def ceq(c, k):
    return (c == k) if isinstance(c, SInt) else (c == k)

def in_range(c, lo, hi):
    if isinstance(c, SInt):
        return (c >= lo) & (c <= hi)
    return lo <= c <= hi


def _any(c, preds):
    out = None
    for p in preds:
        out = p if out is None else (out | p)
    return out

def category(c, cat):
    if cat == C.CATEGORY_DIGIT:
        return in_range(c, 48, 57)
    if cat == C.CATEGORY_WORD:
        if isinstance(c, SInt):
            return _any(c, [in_range(c, 48, 57), in_range(c, 65, 90), in_range(c, 97, 122), c == 95])
        return chr(c).isalnum() or c == 95
    if cat == C.CATEGORY_SPACE:
        if isinstance(c, SInt):
            return _any(c, [in_range(c, 9, 13), c == 32, in_range(c, 28, 31)])
        return chr(c).isspace()
    raise EngineLimit(str(cat))

def in_set(c, items):
    neg = False
    terms = []
    for op, av in items:
        if op == C.NEGATE:
            neg = True
        elif op == C.LITERAL:
            terms.append(ceq(c, av))
        elif op == C.RANGE:
            terms.append(in_range(c, av[0], av[1]))
        elif op == C.CATEGORY:
            terms.append(category(c, av))
        else:
            raise EngineLimit(str(op))
    if any(isinstance(t, SBool) for t in terms):
        r = SBool(z3.Or([t.t if isinstance(t, SBool) else z3.BoolVal(bool(t)) for t in terms]))
        return ~r if neg else r
    r = any(terms)
    return (not r) if neg else r

class Matcher:
    def __init__(self, pattern, flags=0):
        self.tree = P.parse(pattern, flags)
        self.groupindex = dict(self.tree.state.groupdict)
        self.ngroups = self.tree.state.groups

    def match(self, s):
        """s: list of char codes (int | SInt). Anchored at 0 like re.match."""
        for end, groups in self._seq(list(self.tree), 0, s, {}):
            return end, groups
        return None

    def _seq(self, nodes, pos, s, groups):
        if not nodes:
            yield pos, groups
            return
        (op, av), rest = nodes[0], nodes[1:]
        n = len(s)
        if op == C.LITERAL:
            if pos < n and ceq(s[pos], av):
                yield from self._seq(rest, pos + 1, s, groups)
        elif op == C.NOT_LITERAL:
            if pos < n and not ceq(s[pos], av):
                yield from self._seq(rest, pos + 1, s, groups)
        elif op == C.ANY:
            if pos < n and not ceq(s[pos], 10):
                yield from self._seq(rest, pos + 1, s, groups)
        elif op == C.IN:
            if pos < n and in_set(s[pos], av):
                yield from self._seq(rest, pos + 1, s, groups)
        elif op == C.AT:
            if av in (C.AT_BEGINNING, C.AT_BEGINNING_STRING):
                ok = pos == 0
            elif av == C.AT_END:
                ok = pos == n or (pos == n - 1 and ceq(s[pos], 10))
            elif av == C.AT_END_STRING:
                ok = pos == n
            else:
                raise EngineLimit(str(av))
            if ok:
                yield from self._seq(rest, pos, s, groups)
        elif op == C.SUBPATTERN:
            gid, _af, _df, sub = av
            for e, g in self._seq(list(sub), pos, s, groups):
                if gid is not None:
                    g = dict(g); g[gid] = (pos, e)
                yield from self._seq(rest, e, s, g)
        elif op == C.BRANCH:
            for alt in av[1]:
                yield from self._seq(list(alt) + rest, pos, s, groups)
        elif op in (C.MAX_REPEAT, C.MIN_REPEAT):
            lo, hi, sub = av
            yield from self._rep(list(sub), lo, hi, op == C.MAX_REPEAT, rest, pos, s, groups, 0)
        else:
            raise EngineLimit(str(op))

    def _rep(self, sub, lo, hi, greedy, rest, pos, s, groups, count):
        can_stop = count >= lo
        can_more = hi == C.MAXREPEAT or count < hi
        def more():
            if can_more:
                for e, g in self._seq(sub, pos, s, groups):
                    if e == pos:
                        # empty iteration: sre accepts it once (groups set) and stops repeating
                        yield from self._seq(rest, pos, s, g)
                    else:
                        yield from self._rep(sub, lo, hi, greedy, rest, e, s, g, count + 1)
        if greedy:
            yield from more()
            if can_stop:
                yield from self._seq(rest, pos, s, groups)
        else:
            if can_stop:
                yield from self._seq(rest, pos, s, groups)
            yield from more()


class SymMatch:
    def __init__(self, m, s, end, groups):
        self._m, self.string, self._end, self._g = m, s, end, groups

    def group(self, *names):
        def one(n):
            if n == 0:
                return self.string[0:self._end]
            gid = self._m.groupindex[n] if isinstance(n, str) else n
            sp = self._g.get(gid)
            if sp is None:
                return None
            return self.string[sp[0]:sp[1]]
        r = tuple(one(n) for n in names)
        return r[0] if len(r) == 1 else r


class SymPattern:
    """Drop-in for a compiled pattern: real engine on real str, interpreter on SStr."""

    def __init__(self, real):
        self.real = real
        self.pattern = real.pattern
        self.m = Matcher(real.pattern, real.flags & ~32)

    def match(self, s):
        if isinstance(s, str):
            return self.real.match(s)
        r = self.m.match(list(s._d))
        if r is None:
            return None
        return SymMatch(self.m, s, r[0], r[1])
