"""symx.regex — interpreter for `re` patterns over sequences of (possibly symbolic) code points.
Built from re._parser's parse tree; mirrors sre's backtracking order so group spans agree with `re`."""
import re
import re._parser as P
import re._constants as C
import z3
from .core import SBool, EngineLimit
from .ints import SInt, term
from .seq import SStr

def ceq(c, k):
    return (c == k) if isinstance(c, SInt) else (c == k)

def in_range(c, lo, hi):
    if isinstance(c, SInt):
        return (c >= lo) & (c <= hi)
    return lo <= c <= hi


def _any(c, preds):
    out = None
    for p in preds:
        out = p if out is None else (out | p)
    return out

def category(c, cat):
    if cat == C.CATEGORY_DIGIT:
        return in_range(c, 48, 57)
    if cat == C.CATEGORY_WORD:
        if isinstance(c, SInt):
            return _any(c, [in_range(c, 48, 57), in_range(c, 65, 90), in_range(c, 97, 122), c == 95])
        return chr(c).isalnum() or c == 95
    if cat == C.CATEGORY_SPACE:
        if isinstance(c, SInt):
            return _any(c, [in_range(c, 9, 13), c == 32, in_range(c, 28, 31)])
        return chr(c).isspace()
    raise EngineLimit(str(cat))

def in_set(c, items):
    neg = False
    terms = []
    for op, av in items:
        if op == C.NEGATE:
            neg = True
        elif op == C.LITERAL:
            terms.append(ceq(c, av))
        elif op == C.RANGE:
            terms.append(in_range(c, av[0], av[1]))
        elif op == C.CATEGORY:
            terms.append(category(c, av))
        else:
            raise EngineLimit(str(op))
    if any(isinstance(t, SBool) for t in terms):
        r = SBool(z3.Or([t.t if isinstance(t, SBool) else z3.BoolVal(bool(t)) for t in terms]))
        return ~r if neg else r
    r = any(terms)
    return (not r) if neg else r

class Matcher:
    def __init__(self, pattern, flags=0):
        self.tree = P.parse(pattern, flags)
        self.groupindex = dict(self.tree.state.groupdict)
        self.ngroups = self.tree.state.groups

    def match(self, s, start=0, full=False):
        """s: list of char codes (int | SInt). Anchored at `start` like re.match; full: the match must end at the end (fullmatch)."""
        try:
            for end, groups in self._seq(list(self.tree), start, s, {}):
                if full and end != len(s):
                    continue
                return end, groups
        except RecursionError:
            from .core import EngineLimit
            raise EngineLimit("regex interpreter: recursion depth exceeded on a long symbolic subject") from None
        return None

    def _seq(self, nodes, pos, s, groups):
        if not nodes:
            yield pos, groups
            return
        (op, av), rest = nodes[0], nodes[1:]
        n = len(s)
        if op == C.LITERAL:
            if pos < n and ceq(s[pos], av):
                yield from self._seq(rest, pos + 1, s, groups)
        elif op == C.NOT_LITERAL:
            if pos < n and not ceq(s[pos], av):
                yield from self._seq(rest, pos + 1, s, groups)
        elif op == C.ANY:
            if pos < n and not ceq(s[pos], 10):
                yield from self._seq(rest, pos + 1, s, groups)
        elif op == C.IN:
            if pos < n and in_set(s[pos], av):
                yield from self._seq(rest, pos + 1, s, groups)
        elif op == C.AT:
            if av in (C.AT_BEGINNING, C.AT_BEGINNING_STRING):
                ok = pos == 0
            elif av == C.AT_END:
                ok = pos == n or (pos == n - 1 and ceq(s[pos], 10))
            elif av == C.AT_END_STRING:
                ok = pos == n
            else:
                raise EngineLimit(str(av))
            if ok:
                yield from self._seq(rest, pos, s, groups)
        elif op == C.SUBPATTERN:
            gid, _af, _df, sub = av
            for e, g in self._seq(list(sub), pos, s, groups):
                if gid is not None:
                    g = dict(g); g[gid] = (pos, e)
                yield from self._seq(rest, e, s, g)
        elif op == C.BRANCH:
            for alt in av[1]:
                yield from self._seq(list(alt) + rest, pos, s, groups)
        elif op in (C.MAX_REPEAT, C.MIN_REPEAT):
            lo, hi, sub = av
            yield from self._rep(list(sub), lo, hi, op == C.MAX_REPEAT, rest, pos, s, groups, 0)
        else:
            raise EngineLimit(str(op))

    def _rep(self, sub, lo, hi, greedy, rest, pos, s, groups, count):
        can_stop = count >= lo
        can_more = hi == C.MAXREPEAT or count < hi
        def more():
            if can_more:
                for e, g in self._seq(sub, pos, s, groups):
                    if e == pos:
                        # empty iteration: sre accepts it once (groups set) and stops repeating
                        yield from self._seq(rest, pos, s, g)
                    else:
                        yield from self._rep(sub, lo, hi, greedy, rest, e, s, g, count + 1)
        if greedy:
            yield from more()
            if can_stop:
                yield from self._seq(rest, pos, s, groups)
        else:
            if can_stop:
                yield from self._seq(rest, pos, s, groups)
            yield from more()


class SymMatch:
    def __init__(self, m, s, end, groups, start=0):
        self._m, self.string, self._end, self._g, self._start = m, s, end, groups, start

    def start(self, g=0):
        return self._start if g == 0 else (self._g.get(self._gid(g)) or (-1, -1))[0]

    def end(self, g=0):
        return self._end if g == 0 else (self._g.get(self._gid(g)) or (-1, -1))[1]

    def span(self, g=0):
        return (self.start(g), self.end(g))

    def _gid(self, n):
        return self._m.groupindex[n] if isinstance(n, str) else n

    def groups(self, default=None):
        return tuple(self.group(i) if self._g.get(i) is not None else default for i in range(1, self._m.ngroups))

    def groupdict(self, default=None):
        return {k: (self.group(k) if self._g.get(v) is not None else default) for k, v in self._m.groupindex.items()}

    def __getitem__(self, n):
        return self.group(n)

    def group(self, *names):
        if not names:
            names = (0,)

        def one(n):
            if n == 0:
                return self.string[self._start:self._end]
            gid = self._m.groupindex[n] if isinstance(n, str) else n
            sp = self._g.get(gid)
            if sp is None:
                return None
            return self.string[sp[0]:sp[1]]
        r = tuple(one(n) for n in names)
        return r[0] if len(r) == 1 else r


class SymPattern:
    """Drop-in for a compiled pattern: real engine on real str, interpreter on SStr."""

    def __init__(self, real):
        self.real = real
        self.pattern = real.pattern
        self.m = Matcher(real.pattern, real.flags & ~32)

    def __getattr__(self, name):
        return getattr(self.real, name)

    def _plain(self, s):
        """a proxy sequence without any symbolic element is handed to the real engine as the str/bytes it stands for"""
        if isinstance(s, (str, bytes)):
            return s
        d = getattr(s, "_d", None)
        if d is not None and all(type(x) is int for x in d):
            try:
                return bytes(d) if isinstance(self.real.pattern, bytes) else "".join(map(chr, d))
            except ValueError:
                return None
        return None

    def match(self, s, *a):
        p = self._plain(s)
        if p is not None:
            return self.real.match(p, *a)
        r = self.m.match(list(s._d), *(a[:1]))
        if r is None:
            return None
        return SymMatch(self.m, s, r[0], r[1], a[0] if a else 0)

    def fullmatch(self, s, *a):
        p = self._plain(s)
        if p is not None:
            return self.real.fullmatch(p, *a)
        r = self.m.match(list(s._d), *(a[:1]), full=True)
        if r is None:
            return None
        return SymMatch(self.m, s, r[0], r[1], a[0] if a else 0)

    def search(self, s, *a):
        p = self._plain(s)
        if p is not None:
            return self.real.search(p, *a)
        d = list(s._d)
        for st in range(a[0] if a else 0, len(d) + 1):
            r = self.m.match(d, st)
            if r is not None:
                return SymMatch(self.m, s, r[0], r[1], st)
        return None

    def findall(self, s, *a):
        p = self._plain(s)
        if p is not None:
            return self.real.findall(p, *a)
        raise EngineLimit("re.findall on a symbolic string")

    finditer = sub = subn = split = findall


class SymRe:
    """stand-in for the `re` module inside a module under test: compiled patterns become symbolic-aware"""
    def __init__(self):
        self._cache = {}

    def __getattr__(self, name):
        return getattr(re, name)

    def compile(self, pattern, flags=0):
        if isinstance(pattern, SymPattern):
            return pattern
        key = (pattern, flags)
        if key not in self._cache:
            self._cache[key] = SymPattern(re.compile(pattern, flags))
        return self._cache[key]

    def match(self, pattern, string, flags=0): return self.compile(pattern, flags).match(string)
    def fullmatch(self, pattern, string, flags=0): return self.compile(pattern, flags).fullmatch(string)
    def search(self, pattern, string, flags=0): return self.compile(pattern, flags).search(string)
    def findall(self, pattern, string, flags=0): return self.compile(pattern, flags).findall(string)
    def sub(self, pattern, repl, string, count=0, flags=0): return self.compile(pattern, flags).sub(repl, string, count)
    def split(self, pattern, string, maxsplit=0, flags=0): return self.compile(pattern, flags).split(string, maxsplit)


SYMRE = SymRe()


def wrap_module_patterns(patch, module):
    """every compiled pattern among the module's globals, and the names it uses to compile patterns, become symbolic-aware"""
    n = 0
    for name, v in list(vars(module).items()):
        if isinstance(v, re.Pattern):
            patch.setg(module, name, SymPattern(v)); n += 1
        elif v is re:
            patch.setg(module, name, SYMRE)
        elif v is re.compile:
            patch.setg(module, name, SYMRE.compile)
        elif any(v is f for f in (re.match, re.fullmatch, re.search)):
            patch.setg(module, name, getattr(SYMRE, v.__name__))
    return n
