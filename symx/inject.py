"""symx.inject — binds the symbolic-aware stand-ins into the repository modules' globals (nothing in /repo is edited)
and removes them again. One function per domain; install(domains) returns a restore() callable."""
import sys, types
from . import core, loader, models, regex
from .seq import SBytes, SByteArray, SStr, sym_int, sym_float, sym_round, sym_len, sym_str
from .ints import SymTable

ASSUMPTIONS = {
    "_": ["construct.StringEncoded._decode re-stated with `except Exception` instead of a bare `except:` (same behaviour for the code's own exceptions)"],
    "hdlc": ["bytes/bytearray in han.hdlc -> SBytes/SByteArray (CPython sequence semantics for append/extend/clear/find/slicing/iteration)",
             "han.hdlc._LOGGER -> no-op logger",
             "FastFrameCheckSequence16.fast_frame_check_crc_table -> SymTable over the list computed by the repository at import "
             "(GF(2)-linear expansion after checking linearity entry by entry, else uninterpreted function + 256 ground facts)"],
    "p1": ["bytes/bytearray/int/float in han.dlde -> SBytes/SByteArray/sym_int/sym_float", "han.dlde._LOGGER -> no-op logger",
           "han.dlde._ident_pattern -> SymPattern interpreting the repository's pattern string (backtracking matcher mirroring sre)",
           "every function of han.dlde whose branches only assign pure bit/arithmetic expressions to locals is if-converted from its current source (the CRC16 bit loop, wherever it lives)"],
    "obis": ["han.obis._obis_pattern -> SymPattern; int -> sym_int; f-strings of Obis.to_reduced_str/__str__/to_group_cdr_str rewritten from source to symbolic concatenation"],
    "decoders": ["construct.core io/struct/bytes2bits/bits2integer/BytesIOWithOffsets -> list-backed symbolic-aware equivalents",
                 "han.cosem.datetime -> datetime model with CPython's validation rules; float/round/int in aidon/kaifa/kamstrup -> delta-model float, decimal rounding model",
                 "conditional expressions of aidon._normalize_parsed_items rewritten from source to a non-forking numeric If (int/float type of the arms not distinguished)",
                 "Decimal(10) ** symbolic exponent forks over the feasible exponent values",
                 "cosem.ObisCode decoder lambda recompiled from the module source with its f-string / '.'.join made symbolic-aware"],
    "mc": ["han.meter_connection._LOGGER -> no-op logger"],
}


class NullLog:
    def debug(self, *a, **k): pass
    info = warning = error = exception = critical = debug
    def isEnabledFor(self, *_): return False


class _Patch:
    def __init__(self):
        self.undo = []

    def setg(self, mod, name, val):
        d = mod.__dict__
        had, old = name in d, d.get(name)
        d[name] = val
        self.undo.append(lambda: d.__setitem__(name, old) if had else d.pop(name, None))

    def seta(self, obj, name, val):
        had = name in vars(obj)
        old = vars(obj).get(name)
        setattr(obj, name, val)
        self.undo.append((lambda: setattr(obj, name, old)) if had else (lambda: delattr(obj, name)))

    def restore(self):
        for u in reversed(self.undo):
            u()
        self.undo = []


TABLE = None
INFO = {}


def _hdlc(p):
    global TABLE
    import han.hdlc as H
    from han.fastframecheck import FastFrameCheckSequence16 as F
    p.setg(H, "_LOGGER", NullLog()); p.setg(H, "bytes", SBytes); p.setg(H, "bytearray", SByteArray)
    real = F.__dict__["fast_frame_check_crc_table"]
    if not isinstance(real, SymTable):
        TABLE = SymTable(list(real))
        p.seta(F, "fast_frame_check_crc_table", TABLE)
        INFO["fcs_table_linear"] = TABLE.linear


def _p1(p):
    import han.dlde as D
    p.setg(D, "_LOGGER", NullLog()); p.setg(D, "bytes", SBytes); p.setg(D, "bytearray", SByteArray)
    p.setg(D, "int", sym_int); p.setg(D, "float", sym_float)
    p.setg(D, "datetime", models.SDateTime)
    INFO["dlde_patterns_wrapped"] = regex.wrap_module_patterns(p, D)
    p.setg(D, "str", sym_str); p.setg(D, "isinstance", models.sym_isinstance); p.setg(D, "round", sym_round); p.setg(D, "range", models.SymRange)
    try:
        restore, done = loader.safe_if_convert_module(D)
        p.undo.append(restore)
        INFO["dlde_if_converted"] = done          # every function of the module whose branches are pure bit/arith assignments (the CRC16 loop, wherever it lives)
    except Exception as e:           # fall back to plain forking
        INFO["dlde_if_converted"] = f"failed: {e}"


def _obis(p):
    import han.obis as O
    INFO["obis_patterns_wrapped"] = regex.wrap_module_patterns(p, O)
    p.setg(O, "int", sym_int); p.setg(O, "str", sym_str); p.setg(O, "isinstance", models.sym_isinstance)
    p.setg(O, "hash", models.sym_hash)
    n = 0
    for name in ("to_reduced_str", "__str__", "to_group_cdr_str"):
        try:
            restore, counts = loader.rewrite(O.Obis, name, fstrings=True)
            p.undo.append(restore); n += counts.get("fstr", 0)
        except Exception as e:
            INFO.setdefault("obis_rewrite_failed", []).append(f"{name}: {e}")
    INFO["obis_fstrings_rewritten"] = n


def _decoders(p):
    import construct.core as CC
    import han.cosem as cosem, han.aidon as aidon, han.kaifa as kaifa, han.kamstrup as kamstrup
    for name, val in models.construct_patches().items():
        p.setg(CC, name, val)

    def _decode(self, obj, context, path):
        # construct's own version uses a bare `except:` which would swallow the engine's path-control exceptions
        try:
            return obj.decode(self.encoding)
        except Exception:
            raise CC.StringError(f"cannot use encoding {self.encoding!r} to decode {obj!r}")
    p.seta(CC.StringEncoded, "_decode", _decode)
    # Bitwise()/BitStruct() captured construct.lib's bytes2bits (a 256-entry dict lookup) when the grammars were declared:
    # walk the declared grammars and point those instances at the arithmetic version
    import construct.lib as CL
    seen, n = set(), 0
    stack = [v for m in (cosem, aidon, kaifa, kamstrup) for v in vars(m).values() if isinstance(v, CC.Construct)]
    while stack:
        c = stack.pop()
        if id(c) in seen:
            continue
        seen.add(id(c))
        if isinstance(c, (CC.Transformed, CC.Restreamed)) and getattr(c, "decodefunc", None) in (CL.bytes2bits, getattr(CC, "bytes2bits", None)):
            p.seta(c, "decodefunc", models.sym_bytes2bits)
            n += 1
        for v in vars(c).values():
            if isinstance(v, CC.Construct):
                stack.append(v)
            elif isinstance(v, (list, tuple)):
                stack.extend(x for x in v if isinstance(x, CC.Construct))
            elif isinstance(v, dict):
                stack.extend(x for x in v.values() if isinstance(x, CC.Construct))
    INFO["bitwise_instances_patched"] = n
    p.setg(cosem, "datetime", models.fake_datetime_module)
    for mod in (aidon, kaifa, kamstrup, cosem):
        p.setg(mod, "float", sym_float); p.setg(mod, "round", sym_round); p.setg(mod, "int", sym_int); p.setg(mod, "str", sym_str)
        p.setg(mod, "isinstance", models.sym_isinstance); p.setg(mod, "hasattr", models.sym_hasattr); p.setg(mod, "range", models.SymRange)
        for gname, gval in list(vars(mod).items()):          # range objects built at import time (module-level constants) get the same membership test
            if type(gval) is range:
                p.setg(mod, gname, models.SymRange(gval.start, gval.stop, gval.step))
        regex.wrap_module_patterns(p, mod)
    try:
        restore, counts = loader.rewrite_adapter_lambda(cosem, "ObisCode", "decoder")
        p.undo.append(restore)
        INFO["obiscode_adapter_rewritten"] = counts
    except Exception as e:
        INFO["obiscode_adapter_rewritten"] = f"failed: {e}"
    # the int-or-float conditional of the Aidon normaliser (wherever a change moves it inside the module): non-forking numeric If
    import types as _types
    total = 0
    for fname, f in list(vars(aidon).items()):
        if isinstance(f, _types.FunctionType) and f.__module__ == aidon.__name__ and not fname.startswith("decode_"):
            try:
                restore, counts = loader.rewrite(aidon, fname, ifexp=True)
                if counts.get("ifexp", 0):
                    p.undo.append(restore); total += counts["ifexp"]
                else:
                    restore()
            except Exception as e:
                INFO.setdefault("aidon_ifexp_failed", []).append(f"{fname}: {e}")
    INFO["aidon_ifexp_converted"] = total
    _obis(p)


def _mc(p):
    import han.meter_connection as MC
    p.setg(MC, "_LOGGER", NullLog()); p.setg(MC, "str", sym_str); p.setg(MC, "isinstance", models.sym_isinstance)


DOMAINS = {"hdlc": _hdlc, "p1": _p1, "obis": _obis, "decoders": _decoders, "mc": _mc}


def install(domains):
    p = _Patch()
    try:
        for d in domains:
            DOMAINS[d](p)
    except BaseException:
        p.restore()
        raise
    return p.restore


def engine_hooks(domains):
    hooks = []
    if "hdlc" in domains and TABLE is not None:
        hooks.append(TABLE.install)
    return hooks


def assumptions(domains):
    out = []
    for d in domains:
        out += ASSUMPTIONS.get(d, [])
    return out


# ---------------------------------------------------------------------------------------- per-path reset of shared mutable state
def snapshot_shared_state():
    """Mutable objects that live longer than one call in the code under test - class attributes, module globals and default
    arguments of han.* that are dict/list/set/bytearray or instances of han classes - are snapshotted once and restored IN PLACE at
    the start of every path, so that every path starts from the import-time state (a change that makes objects share such state
    is then judged by what it does within one path - e.g. the twin / history scenarios - not by leftovers of earlier paths)."""
    import copy, types
    mods = [m for n, m in list(sys.modules.items()) if (n == "han" or n.startswith("han.")) and m is not None]
    seen, items = set(), []

    from .seq import SSeq, SByteArray

    def lift(owner, name, obj):
        """a long-lived real bytearray (class attribute / module global) would force every symbolic octet appended to it to a
        concrete value; it becomes the symbolic byte array the rebound ``bytearray`` name would have produced."""
        if type(obj) is bytearray and owner is not None:
            try:
                new = SByteArray(list(obj))
                setattr(owner, name, new)
                return new
            except Exception:
                return obj
        return obj

    def consider(obj):
        if id(obj) in seen:
            return
        if isinstance(obj, SSeq):
            seen.add(id(obj))
            items.append((obj, list(obj._d)))
        elif isinstance(obj, (dict, list, set, bytearray)):
            seen.add(id(obj))
            try:
                items.append((obj, copy.copy(obj)))
            except Exception:
                pass
        elif hasattr(obj, "__dict__") and not isinstance(obj, (type, types.ModuleType, types.FunctionType)) and type(obj).__module__.startswith("han."):
            seen.add(id(obj))
            items.append((obj, dict(vars(obj))))

    for m in mods:
        for name, v in list(vars(m).items()):
            if name.startswith("__"):
                continue
            if isinstance(v, type) and v.__module__ == m.__name__:
                for an, av in list(vars(v).items()):
                    if not an.startswith("__"):
                        av = lift(v, an, av)
                        consider(av)
                    raw = av.__func__ if isinstance(av, (staticmethod, classmethod)) else (av.fget if isinstance(av, property) else av)
                    if isinstance(raw, types.FunctionType):
                        for d in (raw.__defaults__ or ()):
                            consider(d)
                        for d in (raw.__kwdefaults__ or {}).values():
                            consider(d)
            elif isinstance(v, types.FunctionType) and v.__module__ == m.__name__:
                for d in (v.__defaults__ or ()):
                    consider(d)
                for d in (v.__kwdefaults__ or {}).values():
                    consider(d)
            elif not isinstance(v, (types.ModuleType, type)):
                if getattr(type(v), "__module__", "").startswith("han.") or isinstance(v, (dict, list, set, bytearray)):
                    if not (isinstance(v, dict) and name in ("__builtins__",)):
                        v = lift(m, name, v)
                        consider(v)

    def restore():
        for obj, snap in items:
            try:
                if isinstance(obj, SSeq):
                    obj._d[:] = snap
                elif isinstance(obj, dict):
                    if obj != snap or len(obj) != len(snap):
                        obj.clear(); obj.update(snap)
                elif isinstance(obj, (list, bytearray)):
                    obj[:] = snap
                elif isinstance(obj, set):
                    obj.clear(); obj.update(snap)
                else:
                    obj.__dict__.clear(); obj.__dict__.update(snap)
            except Exception:
                pass
    restore.count = len(items)
    return restore
