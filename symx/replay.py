"""vcheck replay <path>: re-run a recorded witness on the unmodified repository code with the property's concrete oracle."""
import sys, json, logging


def main():
    logging.disable(logging.CRITICAL)
    from spec import concrete
    rec = json.load(open(sys.argv[1]))
    v = concrete.judge(rec["prop"], rec["w"])
    if v:
        print(f"VIOLATION property={rec['prop']} replay={sys.argv[1]}")
        print(f"  signature: {v['signature']} :: {v.get('detail', '')[:1000]}")
        sys.exit(1)
    print(f"property {rec['prop']} holds on the recorded witness (recorded signature: {rec.get('signature')})")
    sys.exit(0)


if __name__ == "__main__":
    main()
