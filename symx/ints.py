"""symx.ints — integer proxies: SInt (z3 BV64 or Int term) and LInt (GF(2)-affine normal form)."""
from __future__ import annotations
from fractions import Fraction
from decimal import Decimal
import z3
from . import core
from .core import SBool, bterm, EngineLimit, W

NAME_LIMIT = 48


def is_bv(t):
    return z3.is_bv(t)


_DEPTH = {}


def _depth(t, cap=NAME_LIMIT + 2):
    """depth of a term, memoised per AST id (the entry keeps the term alive, so the id cannot be reused)"""
    key = t.get_id()
    hit = _DEPTH.get(key)
    if hit is not None:
        return hit[0]
    if len(_DEPTH) > 300000:
        _DEPTH.clear()
    d = 0
    if z3.is_app(t):
        n = t.num_args()
        if n:
            d = 1 + max(_depth(t.arg(i)) for i in range(n))
            if d > cap:
                d = cap
    _DEPTH[key] = (d, t)
    return d


def term(x, like=None):
    if isinstance(x, SInt):
        return x.t
    if isinstance(x, bool):
        x = int(x)
    if isinstance(x, int):
        if like is not None and is_bv(like):
            return z3.BitVecVal(x, W)
        return z3.IntVal(x)
    raise TypeError(type(x))


def unify(a, b):
    ta = term(a, term(b) if isinstance(b, SInt) else None)
    tb = term(b, ta)
    if is_bv(ta) and not is_bv(tb):
        ta = z3.BV2Int(ta, True)
    elif is_bv(tb) and not is_bv(ta):
        tb = z3.BV2Int(tb, True)
    return ta, tb


def _num(o):
    return isinstance(o, (int, SInt))


def _mk(t):
    return SInt(t)


class SInt:
    """Python-int stand-in. self.t is a z3 term of sort BitVec(W) ("BV mode") or Int ("Int mode")."""

    def __init__(self, t):
        e = core.ENG
        if e is not None and not z3.is_const(t) and _depth(t) > NAME_LIMIT:
            v = z3.Const(e.fresh_name("v"), t.sort())
            e.add(v == t)
            t = v
        self._t = t

    @property
    def t(self):
        return self._t

    # ---- arithmetic
    def _arith(name, fbv, fint):
        def f(self, o):
            from .real import SReal, SDec
            if isinstance(o, (SReal, float, Fraction)):
                return getattr(SReal.of(self), name)(o)
            if isinstance(o, (Decimal, SDec)):
                return getattr(SDec(self, 0), name)(o)
            if not _num(o):
                return NotImplemented
            a, b = unify(self, o)
            return _mk(fbv(a, b) if is_bv(a) else fint(a, b))
        return f

    def _rarith(name, fbv, fint):
        def f(self, o):
            from .real import SReal, SDec
            if isinstance(o, (float, Fraction)):
                return getattr(SReal.of(o), name)(self)
            if isinstance(o, Decimal):
                return getattr(SDec.of(o), name)(self)
            if not _num(o):
                return NotImplemented
            b, a = unify(self, o)
            return _mk(fbv(a, b) if is_bv(a) else fint(a, b))
        return f

    __add__ = _arith("__add__", lambda a, b: a + b, lambda a, b: a + b)
    __radd__ = _rarith("__add__", lambda a, b: a + b, lambda a, b: a + b)
    __sub__ = _arith("__sub__", lambda a, b: a - b, lambda a, b: a - b)
    __rsub__ = _rarith("__sub__", lambda a, b: a - b, lambda a, b: a - b)
    __mul__ = _arith("__mul__", lambda a, b: a * b, lambda a, b: a * b)
    __rmul__ = _rarith("__mul__", lambda a, b: a * b, lambda a, b: a * b)

    def __floordiv__(self, o):
        if not isinstance(o, int) or o <= 0:
            raise EngineLimit("floor division by a non-constant / non-positive")
        a = self.t
        # python floor division; operands here are non-negative wherever the code divides (asserted by caller modes)
        return _mk(z3.UDiv(a, z3.BitVecVal(o, W)) if is_bv(a) else a / o)

    def __mod__(self, o):
        if not isinstance(o, int) or o <= 0:
            raise EngineLimit("modulo by a non-constant / non-positive")
        a = self.t
        return _mk(z3.URem(a, z3.BitVecVal(o, W)) if is_bv(a) else a % o)

    def __neg__(self):
        return _mk(-self.t)

    def __pos__(self):
        return self

    def __abs__(self):
        a = self.t
        return _mk(z3.If(a < 0, -a, a))

    def __truediv__(self, o):
        from .real import SReal
        return SReal.of(self) / o

    def __rtruediv__(self, o):
        from .real import SReal
        return SReal.of(o) / self

    def __rpow__(self, base):
        return base ** concretize(self)       # forks over the feasible exponents (keeps the arithmetic linear)

    def __pow__(self, e):
        if isinstance(e, int) and 0 <= e <= 4:
            r = 1
            for _ in range(e):
                r = r * self
            return r
        raise EngineLimit("symbolic power")

    def __round__(self, nd=None):
        return self

    __trunc__ = __floor__ = __ceil__ = lambda self: self

    # ---- bit operations
    def _bit(fbv):
        def f(self, o):
            if not _num(o):
                return NotImplemented
            a, b = unify(self, o)
            if not is_bv(a):
                raise EngineLimit("bit operation in Int mode")
            return _mk(fbv(a, b))
        return f

    __and__ = __rand__ = _bit(lambda a, b: a & b)
    __or__ = __ror__ = _bit(lambda a, b: a | b)
    __xor__ = __rxor__ = _bit(lambda a, b: a ^ b)

    def __lshift__(self, o):
        if not isinstance(o, int):
            raise EngineLimit("symbolic shift amount")
        return _mk(self.t << o) if is_bv(self.t) else _mk(self.t * (1 << o))

    def __rshift__(self, o):
        if not isinstance(o, int):
            raise EngineLimit("symbolic shift amount")
        return _mk(z3.LShR(self.t, o)) if is_bv(self.t) else _mk(self.t / (1 << o))

    # ---- comparisons
    def _cmp(fbv, fint):
        def f(self, o):
            if not _num(o):
                return NotImplemented
            a, b = unify(self, o)
            return SBool(fbv(a, b) if is_bv(a) else fint(a, b))
        return f

    __eq__ = _cmp(lambda a, b: a == b, lambda a, b: a == b)
    __ne__ = _cmp(lambda a, b: a != b, lambda a, b: a != b)
    __lt__ = _cmp(lambda a, b: a < b, lambda a, b: a < b)
    __le__ = _cmp(lambda a, b: a <= b, lambda a, b: a <= b)
    __gt__ = _cmp(lambda a, b: a > b, lambda a, b: a > b)
    __ge__ = _cmp(lambda a, b: a >= b, lambda a, b: a >= b)

    def __hash__(self):
        return hash(concretize(self))

    def __index__(self):
        return concretize(self)

    __int__ = __index__

    def __bool__(self):
        return core.ENG.branch(self.t != term(0, self.t))

    def __format__(self, spec):
        raise EngineLimit("format() of a symbolic int (function needs the f-string rewrite)")

    def __repr__(self):
        return f"SInt({z3.simplify(self.t)})"


def concretize(x):
    if not isinstance(x, SInt):
        return x
    if isinstance(x, LInt) and x.is_const():
        return x.const_val()
    return core.ENG.choose_value(x.t)


def ite(c, a, b):
    """c ? a : b without forking when possible (used by the if-conversion rewrite)."""
    if isinstance(c, LInt):
        if len(c.bits) <= 1:
            low = c.bits[0] if c.bits else ZERO
            r = _lin_ite(low, a, b)
            if r is not None:
                return r
        c = c != 0
    elif isinstance(c, SInt):
        c = c != 0
    if isinstance(c, SBool):
        if c.lin_bit is not None:
            r = _lin_ite(c.lin_bit, a, b)
            if r is not None:
                return r
        if isinstance(a, (int, SInt)) and isinstance(b, (int, SInt)) and (isinstance(a, SInt) or isinstance(b, SInt)):
            ta, tb = unify(a, b)
            return SInt(z3.If(c.t, ta, tb))
        return a if bool(c) else b
    return a if c else b


# ---------------------------------------------------------------------------------------- affine normal form
ATOMS = {}
ZERO = (0, frozenset())


def atom(var, i):
    key = (var.get_id(), i)
    if key not in ATOMS:
        ATOMS[key] = (z3.Extract(i, i, var) == 1, var)
    return key


_BIT_TERMS = {}


def bit_term(b):
    """z3 Bool for one affine bit; memoised (the same bits recur across cuts and paths)."""
    r = _BIT_TERMS.get(b)
    if r is not None:
        return r
    c, vs = b
    if not vs:
        r = z3.BoolVal(bool(c))
    else:
        ts = [ATOMS[v][0] for v in sorted(vs)]
        while len(ts) > 1:                      # balanced tree
            ts = [z3.Xor(ts[i], ts[i + 1]) if i + 1 < len(ts) else ts[i] for i in range(0, len(ts), 2)]
        r = z3.Not(ts[0]) if c else ts[0]
    _BIT_TERMS[b] = r
    return r


def bxor(a, b):
    return (a[0] ^ b[0], a[1] ^ b[1])


_EQ_TERMS = {}
_EQ_ROWS = {}


class LInt(SInt):
    """Non-negative integer in GF(2)-affine normal form: bits[i] = const XOR (set of input-bit atoms)."""

    def __init__(self, bits, orig=None):
        bits = list(bits)
        while bits and bits[-1] == ZERO:
            bits.pop()
        self.bits = bits
        self._t = orig

    @staticmethod
    def of_var(var, width):
        return LInt([(0, frozenset([atom(var, i)])) for i in range(width)], orig=z3.ZeroExt(W - width, var))

    @staticmethod
    def of_int(k):
        return LInt([(1, frozenset()) if (k >> i) & 1 else ZERO for i in range(k.bit_length())])

    @staticmethod
    def lift(x):
        if isinstance(x, LInt):
            return x
        if isinstance(x, int) and not isinstance(x, bool) and x >= 0:
            return LInt.of_int(x)
        return None

    @property
    def t(self):
        if self._t is None:
            n = len(self.bits)
            if n == 0:
                self._t = z3.BitVecVal(0, W)
            else:
                parts = [z3.If(bit_term(b), z3.BitVecVal(1, 1), z3.BitVecVal(0, 1)) for b in reversed(self.bits)]
                body = z3.Concat(*parts) if len(parts) > 1 else parts[0]
                self._t = z3.ZeroExt(W - n, body) if n < W else body
        return self._t

    def is_const(self):
        return all(not b[1] for b in self.bits)

    def const_val(self):
        return sum(b[0] << i for i, b in enumerate(self.bits))

    @staticmethod
    def _res(bits):
        r = LInt(bits)
        return r.const_val() if r.is_const() else r

    def _pair(self, o2):
        n = max(len(self.bits), len(o2.bits))
        return self.bits + [ZERO] * (n - len(self.bits)), o2.bits + [ZERO] * (n - len(o2.bits))

    def _generic(self):
        return SInt(self.t)

    def __xor__(self, o):
        o2 = LInt.lift(o)
        if o2 is None:
            return self._generic() ^ o
        a, b = self._pair(o2)
        return LInt._res([bxor(x, y) for x, y in zip(a, b)])

    __rxor__ = __xor__

    def __and__(self, o):
        if isinstance(o, LInt) and o.is_const():
            o = o.const_val()
        if isinstance(o, int) and not isinstance(o, bool) and o >= 0:
            return LInt._res([b if (o >> i) & 1 else ZERO for i, b in enumerate(self.bits)])
        return self._generic() & o

    __rand__ = __and__

    def __or__(self, o):
        o2 = LInt.lift(o)
        if o2 is not None:
            a, b = self._pair(o2)
            if all(x == ZERO or y == ZERO for x, y in zip(a, b)):
                return LInt._res([bxor(x, y) for x, y in zip(a, b)])
        return self._generic() | o

    __ror__ = __or__

    def __lshift__(self, k):
        if not isinstance(k, int):
            raise EngineLimit("symbolic shift amount")
        if len(self.bits) + k > W - 1:
            return self._generic() << k
        return LInt._res([ZERO] * k + self.bits)

    def __rshift__(self, k):
        if not isinstance(k, int):
            raise EngineLimit("symbolic shift amount")
        return LInt._res(self.bits[k:])

    def _eq_term(self, o):
        o2 = LInt.lift(o)
        if o2 is None:
            return None
        if (self._t is not None and o2.is_const() and len(self.bits) <= 8
                and all(len(b[1]) == 1 and not b[0] for b in self.bits)):
            a, b = self._pair(o2)
            self._rows = [bxor(x, y) for x, y in zip(a, b)]
            return self._t == z3.BitVecVal(o2.const_val(), W)   # pristine octet: compact comparison
        a, b = self._pair(o2)
        key = (tuple(a), tuple(b))
        r = _EQ_TERMS.get(key)
        if r is not None:
            self._rows = _EQ_ROWS[key]
            return r
        cs, rows = [], []
        r = None
        for x, y in zip(a, b):
            d = bxor(x, y)
            rows.append(d)
            if not d[1]:
                if d[0]:
                    r = z3.BoolVal(False)
                    break
                continue
            cs.append(z3.Not(bit_term(d)))
        if r is None:
            r = z3.And(cs) if cs else z3.BoolVal(True)
        _EQ_TERMS[key] = r
        _EQ_ROWS[key] = rows
        self._rows = rows
        return r

    def __eq__(self, o):
        memo = type(o) is int
        if memo:
            m = self.__dict__.get("_eqmemo")
            if m is None:
                m = self.__dict__["_eqmemo"] = {}
            r = m.get(o)
            if r is not None:
                return r
        t = self._eq_term(o)
        if t is None:
            return self._generic() == o
        r = SBool(t, rows=self._rows)
        if len(self.bits) <= 1 and isinstance(o, int) and o in (0, 1):
            low = self.bits[0] if self.bits else ZERO
            r.lin_bit = low if o == 1 else bxor(low, (1, frozenset()))
        if memo:
            m[o] = r
        return r

    def __ne__(self, o):
        memo = type(o) is int
        if memo:
            m = self.__dict__.get("_nememo")
            if m is None:
                m = self.__dict__["_nememo"] = {}
            r = m.get(o)
            if r is not None:
                return r
        t = self._eq_term(o)
        if t is None:
            return self._generic() != o
        r = SBool(z3.Not(t), nrows=self._rows)
        if len(self.bits) <= 1 and isinstance(o, int) and o in (0, 1):
            low = self.bits[0] if self.bits else ZERO
            r.lin_bit = low if o == 0 else bxor(low, (1, frozenset()))
        if memo:
            m[o] = r
        return r

    __hash__ = SInt.__hash__

    def __bool__(self):
        return bool(self != 0)

    # everything else goes through the generic term
    def __add__(self, o): return self._generic() + o
    def __radd__(self, o): return o + self._generic()
    def __sub__(self, o): return self._generic() - o
    def __rsub__(self, o): return o - self._generic()
    def __mul__(self, o): return self._generic() * o
    def __rmul__(self, o): return o * self._generic()
    def __floordiv__(self, o): return self._generic() // o
    def __mod__(self, o): return self._generic() % o
    def __lt__(self, o): return self._generic() < o
    def __le__(self, o): return self._generic() <= o
    def __gt__(self, o): return self._generic() > o
    def __ge__(self, o): return self._generic() >= o

    def __repr__(self):
        return f"LInt({len(self.bits)} bits)"


def _lin_ite(cbit, a, b):
    la, lb = LInt.lift(a), LInt.lift(b)
    if la is None or lb is None:
        return None
    d = la ^ lb
    if not isinstance(d, int):
        return None
    lbb = lb.bits + [ZERO] * max(0, d.bit_length() - len(lb.bits))
    return LInt._res([bxor(x, cbit) if (d >> j) & 1 else x for j, x in enumerate(lbb)])


class SymTable:
    """List whose symbolic-index lookup does not fork: GF(2)-linear expansion when the list is linear
    (checked entry by entry), otherwise an uninterpreted function with one ground fact per entry."""

    def __init__(self, values, name="tbl"):
        self.values = list(values)
        n = len(self.values)
        self.idx_bits = (n - 1).bit_length()
        self.linear = n == (1 << self.idx_bits) and n > 1 and self.values[0] == 0 and all(isinstance(v, int) and v >= 0 for v in self.values)
        if self.linear:
            for x in range(n):
                acc = 0
                for i in range(self.idx_bits):
                    if (x >> i) & 1:
                        acc ^= self.values[1 << i]
                if acc != self.values[x]:
                    self.linear = False
                    break
        self.fn = z3.Function(name, z3.BitVecSort(self.idx_bits), z3.BitVecSort(W))
        self.facts = [self.fn(z3.BitVecVal(i, self.idx_bits)) == z3.BitVecVal(v, W) for i, v in enumerate(self.values)]
        self.use_linear = self.linear

    def install(self, engine):
        if not self.use_linear:          # the linear expansion never produces applications of fn
            engine.background.extend(self.facts)

    def __len__(self):
        return len(self.values)

    def __iter__(self):
        return iter(self.values)

    def __getitem__(self, i):
        if isinstance(i, LInt) and self.use_linear and len(i.bits) <= self.idx_bits:
            width = max(self.values).bit_length()
            out = [ZERO] * width
            for k, b in enumerate(i.bits):
                v = self.values[1 << k]
                for j in range(width):
                    if (v >> j) & 1:
                        out[j] = bxor(out[j], b)
            return LInt._res(out)
        if isinstance(i, SInt):
            t = i.t
            if not is_bv(t):
                raise EngineLimit("table index in Int mode")
            return SInt(self.fn(z3.Extract(self.idx_bits - 1, 0, t)))
        return self.values[i]


def sym_octet(name, mode="lin"):
    """A free octet. mode: 'lin' (affine form, BV), 'bv' (generic BV term), 'int' (Int term with 0..255 assumed)."""
    if mode == "lin":
        return LInt.of_var(z3.BitVec(name, 8), 8)
    if mode == "bv":
        return SInt(z3.ZeroExt(W - 8, z3.BitVec(name, 8)))
    v = z3.Int(name)
    core.ENG.add(z3.And(v >= 0, v <= 255))
    return SInt(v)


def model_int(model, x):
    """Concrete value of x (int | SInt) in a model."""
    if not isinstance(x, SInt):
        return x
    if isinstance(x, LInt):
        val = 0
        for i, b in enumerate(x.bits):
            bit = b[0]
            for a in b[1]:
                _, var = ATOMS[a]
                bit ^= (model.eval(var, model_completion=True).as_long() >> a[1]) & 1
            val |= bit << i
        return val
    v = model.eval(x.t, model_completion=True)
    return v.as_signed_long() if z3.is_bv(v) else v.as_long()
