"""Virtual-time loops: VLoop (symbolic-capable model) and RealVirtualLoop (real BaseEventLoop + fake clock) for replay."""
import asyncio, collections, selectors
from .core import EngineLimit, CutPath


class VLoop(asyncio.AbstractEventLoop):
    def __init__(self):
        self._ready = collections.deque()
        self._timers = []
        self._time = 0
        self.errors = []
        self.steps = 0

    def time(self): return self._time
    def get_debug(self): return False
    def is_running(self): return True
    def is_closed(self): return False
    def call_exception_handler(self, ctx): self.errors.append(ctx)

    def call_soon(self, cb, *args, context=None):
        h = asyncio.Handle(cb, args, self, context); self._ready.append(h); return h
    call_soon_threadsafe = call_soon

    def call_later(self, delay, cb, *args, context=None):
        return self.call_at(self._time + delay, cb, *args, context=context)

    def call_at(self, when, cb, *args, context=None):
        h = asyncio.TimerHandle(when, cb, args, self, context)
        i = len(self._timers)
        while i > 0 and when < self._timers[i - 1]._when:  # forks on symbolic deadlines; FIFO on ties
            i -= 1
        self._timers.insert(i, h)
        return h

    def _timer_handle_cancelled(self, h): pass
    def create_future(self): return asyncio.Future(loop=self)

    def create_task(self, coro, *, name=None, context=None):
        return asyncio.Task(coro, loop=self, name=name, context=context)

    def run(self, horizon=None, max_steps=5000):
        asyncio.events._set_running_loop(self)
        try:
            while True:
                while self._ready:
                    h = self._ready.popleft()
                    if not h._cancelled:
                        h._run()
                    self.steps += 1
                    if self.steps > max_steps:
                        raise EngineLimit("loop steps")
                self._timers = [t for t in self._timers if not t._cancelled]
                if not self._timers:
                    return "quiescent"
                t = self._timers[0]
                if horizon is not None and t._when > horizon:   # may fork
                    return "horizon"
                self._timers.pop(0)
                self._time = t._when
                self._ready.append(t)
        finally:
            asyncio.events._set_running_loop(None)


class _FakeSelector(selectors.BaseSelector):
    def __init__(self, loop): self.loop = loop; self._map = {}
    def register(self, fileobj, events, data=None):
        k = selectors.SelectorKey(fileobj, 0, events, data); self._map[fileobj] = k; return k
    def unregister(self, fileobj): return self._map.pop(fileobj)
    def select(self, timeout=None):
        if timeout is None:
            raise RuntimeError("deadlock: nothing scheduled")
        if timeout > 0:
            self.loop._vt += timeout
        return []
    def get_map(self): return self._map


class RealVirtualLoop(asyncio.SelectorEventLoop):
    """The real asyncio scheduler (ready queue, timer heap, Task stepping) on a fake clock."""
    def __init__(self):
        self._vt = 0.0
        super().__init__(selector=_FakeSelector(self))
        self._clock_resolution = 1e-9
    def time(self): return self._vt
    def _make_self_pipe(self): pass
    def _close_self_pipe(self): pass
