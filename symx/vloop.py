"""Virtual-time event loops.

VLoop            pure-Python AbstractEventLoop whose timer deadlines may be solver terms; mirrors BaseEventLoop._run_once
                 (due timers are moved to the ready queue, then exactly the handles that were ready at that point run).
                 Ties between equal deadlines are FIFO. Real asyncio Task/Future/Event/wait/sleep/Queue run on it unchanged.
RealVirtualLoop  the REAL asyncio scheduler (SelectorEventLoop: ready queue, timer heap, Task stepping) on a fake clock and a
                 selector that never blocks: used to replay concrete scenarios on unmodified machinery. FIFO ties are obtained
                 by adding a tiny increasing epsilon to every deadline.
"""
import asyncio, collections, selectors, heapq
from .core import EngineLimit, CutPath


class VLoop(asyncio.AbstractEventLoop):
    def __init__(self, scale=2):
        self._ready = collections.deque()
        self._timers = []
        self._time = 0
        self.scale = scale            # internal time unit = 1/scale second, so that instants between whole seconds exist
        self.errors = []
        self.steps = 0
        self.iteration = 0
        self.on_iteration = None      # hook(loop, k) called at the start of the k-th loop iteration (k = 1, 2, ...)
        self._debug = False

    def time(self): return self._time
    def get_debug(self): return False
    def is_running(self): return True
    def is_closed(self): return False
    def call_exception_handler(self, ctx): self.errors.append(ctx)
    def default_exception_handler(self, ctx): self.errors.append(ctx)

    def call_soon(self, cb, *args, context=None):
        h = asyncio.Handle(cb, args, self, context)
        self._ready.append(h)
        return h
    call_soon_threadsafe = call_soon

    def call_later(self, delay, cb, *args, context=None):
        return self.call_at(self._time + delay * self.scale, cb, *args, context=context)

    def call_at(self, when, cb, *args, context=None):
        h = asyncio.TimerHandle(when, cb, args, self, context)
        i = len(self._timers)
        while i > 0 and bool(when < self._timers[i - 1]._when):   # forks on symbolic deadlines; FIFO on ties
            i -= 1
        self._timers.insert(i, h)
        return h

    def _timer_handle_cancelled(self, h): pass
    def create_future(self): return asyncio.Future(loop=self)

    def create_task(self, coro, *, name=None, context=None):
        return asyncio.Task(coro, loop=self, name=name, context=context)

    def run(self, horizon=None, max_steps=20000):
        asyncio.events._set_running_loop(self)
        try:
            while True:
                if not self._ready:
                    # A timer fires only when nothing is ready, and one at a time: equal deadlines are distinct instants in
                    # FIFO order (on a real clock two timers are never due at exactly the same time). RealVirtualLoop gets
                    # the same behaviour from the epsilon it adds to every deadline.
                    self._timers = [t for t in self._timers if not t._cancelled]
                    if not self._timers:
                        return "quiescent"
                    t = self._timers[0]
                    if horizon is not None and bool(t._when > horizon):
                        return "horizon"
                    self._timers.pop(0)
                    self._time = t._when
                    self._ready.append(t)
                self.iteration += 1
                if self.on_iteration is not None:
                    self.on_iteration(self, self.iteration)
                for _ in range(len(self._ready)):
                    h = self._ready.popleft()
                    if not h._cancelled:
                        h._run()
                    self.steps += 1
                    if self.steps > max_steps:
                        raise EngineLimit("event-loop step limit")
        finally:
            asyncio.events._set_running_loop(None)


class _FakeSelector(selectors.BaseSelector):
    def __init__(self, loop):
        self.loop = loop
        self._map = {}

    def register(self, fileobj, events, data=None):
        k = selectors.SelectorKey(fileobj, 0, events, data)
        self._map[fileobj] = k
        return k

    def unregister(self, fileobj):
        return self._map.pop(fileobj)

    def select(self, timeout=None):
        if timeout is None:
            raise Quiescent()
        if timeout > 0:
            self.loop._vt += timeout
        return []

    def get_map(self):
        return self._map


class Quiescent(Exception):
    """nothing scheduled any more"""


class RealVirtualLoop(asyncio.SelectorEventLoop):
    """The real asyncio scheduler on a fake clock."""

    def __init__(self):
        self._vt = 0.0
        self._seq = 0
        super().__init__(selector=_FakeSelector(self))
        self._clock_resolution = 1e-7

    def time(self):
        return self._vt

    def call_at(self, when, callback, *args, context=None):
        self._seq += 1
        return super().call_at(when + self._seq * 1e-6, callback, *args, context=context)   # FIFO among equal deadlines

    def _make_self_pipe(self): pass
    def _close_self_pipe(self): pass

    iteration = 0
    on_iteration = None

    def _run_once(self):
        # one iteration of the real scheduler; the hook sees the same iteration numbering as VLoop when every iteration runs
        # at least one handle (an iteration that only waits for a timer is not counted)
        if self._ready or (self._scheduled and self._scheduled[0]._when <= self.time() + self._clock_resolution):
            self.iteration += 1
            if self.on_iteration is not None:
                self.on_iteration(self, self.iteration)
        super()._run_once()

    def run_until_quiescent(self, horizon):
        """run_forever until nothing is scheduled or virtual time passes `horizon`"""
        def stopper():
            self.stop()
        if horizon is not None:
            self.call_at(horizon, stopper)
        try:
            self.run_forever()
            return "horizon"
        except Quiescent:
            return "quiescent"
