"""symx.models — models of the C-level boundaries used by construct and of datetime (validated against the real ones)."""
import types, io as real_io, struct as real_struct, datetime as real_dt
import z3
from .core import EngineLimit
from .ints import SInt, term, concretize
from .seq import SSeq, SBytes
import construct.core as CC


class SymBytesIO:
    def __init__(self, data=b""):
        self.d = data if isinstance(data, SSeq) else SBytes(list(data))
        self.pos = 0

    def read(self, n=-1):
        if n is None or (isinstance(n, int) and n < 0):
            n = len(self.d) - self.pos
        n = concretize(n)
        out = SBytes(self.d._d[self.pos:self.pos + n])
        self.pos += len(out)
        return out

    def seek(self, off, whence=0):
        if whence == 0:
            self.pos = off
        elif whence == 1:
            self.pos += off
        else:
            self.pos = len(self.d) + off
        return self.pos

    def tell(self):
        return self.pos


class SymBytesIOWithOffsets(SymBytesIO):
    @staticmethod
    def from_reading(stream, length, path):
        offset = CC.stream_tell(stream, path)
        contents = CC.stream_read(stream, length, path)
        return SymBytesIOWithOffsets(contents, stream, offset)

    def __init__(self, contents, parent_stream, offset):
        super().__init__(contents)
        self.parent_stream = parent_stream
        self.parent_stream_offset = offset

    def tell(self):
        return super().tell() + self.parent_stream_offset

    def seek(self, offset, whence=0):
        if whence != 0:
            super().seek(offset, whence)
        else:
            super().seek(offset - self.parent_stream_offset)
        return self.tell()


def sym_unpack(fmt, data):
    items = list(data)
    if not any(isinstance(x, SInt) for x in items):
        return real_struct.unpack(fmt, bytes(items))
    order, code = fmt[0], fmt[1:]
    if order not in "><=!" or len(code) != 1 or code not in "bBhHlLqQ":
        raise EngineLimit("unpack " + fmt)
    if order == "<":
        items = items[::-1]
    n = len(items)
    if n != real_struct.calcsize(fmt):
        raise real_struct.error("bad size")
    acc = 0
    for b in items:
        acc = acc * 256 + b
    if code in "bhlq":
        bias, half = 1 << (8 * n), 1 << (8 * n - 1)
        t = acc.t
        acc = SInt(z3.If(t >= half, t - bias, t))
    return (acc,)


def sym_bytes2bits(data):
    out = []
    for b in data:
        if isinstance(b, SInt):
            for k in range(7, -1, -1):
                out.append((b // (1 << k)) % 2)
        else:
            out.extend((b >> k) & 1 for k in range(7, -1, -1))
    return SBytes(out)


def install_construct():
    CC.io = types.SimpleNamespace(BytesIO=SymBytesIO, SEEK_SET=0, SEEK_CUR=1, SEEK_END=2)
    CC.struct = types.SimpleNamespace(unpack=sym_unpack, pack=real_struct.pack, calcsize=real_struct.calcsize, error=real_struct.error)
    CC.bytes2bits = sym_bytes2bits
    CC.BytesIOWithOffsets = SymBytesIOWithOffsets


# ---------------------------------------------------------------- datetime model
class STimedelta:
    def __init__(self, minutes=0):
        self.minutes = minutes


class STimezone:
    def __init__(self, offset):
        m = offset.minutes
        if bool((m <= -24 * 60) | (m >= 24 * 60)) if isinstance(m, SInt) else not (-1440 < m < 1440):
            raise ValueError("offset must be a timedelta strictly between -timedelta(hours=24) and timedelta(hours=24)")
        self.offset_minutes = m


def _days_in_month(y, m):
    # y, m may be SInt; returns SInt/int via If terms
    if isinstance(y, SInt) or isinstance(m, SInt):
        ty, tm = term(y, None), term(m, None)
        leap = z3.And(ty % 4 == 0, z3.Or(ty % 100 != 0, ty % 400 == 0))
        return SInt(z3.If(tm == 2, z3.If(leap, 29, 28), z3.If(z3.Or(tm == 4, tm == 6, tm == 9, tm == 11), 30, 31)))
    import calendar
    return calendar.monthrange(y, m)[1]


class SDateTime:
    FIELDS = ("year", "month", "day", "hour", "minute", "second", "microsecond")

    def __init__(self, year, month, day, hour=0, minute=0, second=0, microsecond=0, tzinfo=None):
        vals = (year, month, day, hour, minute, second, microsecond)
        for name, v in zip(self.FIELDS, vals):
            if v is None or not isinstance(v, (int, SInt)):
                raise TypeError(f"'{type(v).__name__}' object cannot be interpreted as an integer")
        if tzinfo is not None and not isinstance(tzinfo, STimezone):
            raise TypeError("tzinfo argument must be None or of a tzinfo subclass")
        def chk(v, lo, hi, what):
            ok = (v >= lo) & (v <= hi) if isinstance(v, SInt) else (lo <= v <= hi)
            if not ok:
                raise ValueError(f"{what} out of range")
        chk(year, 1, 9999, "year"); chk(month, 1, 12, "month")
        dim = _days_in_month(year, month)
        if not ((day >= 1) & (day <= dim) if isinstance(day, SInt) or isinstance(dim, SInt) else (1 <= day <= dim)):
            raise ValueError("day is out of range for month")
        chk(hour, 0, 23, "hour"); chk(minute, 0, 59, "minute"); chk(second, 0, 59, "second"); chk(microsecond, 0, 999999, "microsecond")
        self.year, self.month, self.day, self.hour, self.minute, self.second, self.microsecond = vals
        self.tzinfo = tzinfo

    def astimezone(self, tz=None):
        """only the part that matters for totality is modelled: OverflowError when the shifted instant leaves year 1..9999;
        otherwise an opaque aware datetime (using its fields is outside the model)"""
        if self.tzinfo is None or tz is None or not isinstance(tz, STimezone):
            raise EngineLimit("datetime.astimezone on a naive datetime / without a target zone")
        delta = tz.offset_minutes - self.tzinfo.offset_minutes
        mod = self.hour * 60 + self.minute + delta
        first = (self.year == 1) & (self.month == 1) & (self.day == 1) if isinstance(self.year, SInt) or isinstance(self.month, SInt) or isinstance(self.day, SInt) else (self.year == 1 and self.month == 1 and self.day == 1)
        last = (self.year == 9999) & (self.month == 12) & (self.day == 31) if isinstance(self.year, SInt) or isinstance(self.month, SInt) or isinstance(self.day, SInt) else (self.year == 9999 and self.month == 12 and self.day == 31)
        if bool(first) and bool(mod < 0):
            raise OverflowError("date value out of range")
        if bool(last) and bool(mod >= 1440):
            raise OverflowError("date value out of range")
        return OpaqueDateTime()

    def __getattr__(self, name):
        # anything else of the datetime API (replace, timestamp, ...) is outside the model: inconclusive, never a pass
        if name.startswith("__"):
            raise AttributeError(name)
        raise EngineLimit(f"datetime.{name} is not modelled")


class OpaqueDateTime:
    """result of a modelled conversion whose civil fields are not tracked"""
    def __getattr__(self, name):
        if name.startswith("__"):
            raise AttributeError(name)
        raise EngineLimit(f"field {name} of a converted datetime is not modelled")


STimezone.utc = STimezone(STimedelta(0))
fake_datetime_module = types.SimpleNamespace(datetime=SDateTime, timezone=STimezone, timedelta=STimedelta)


def sym_bits2integer(data, signed=False):
    if len(data) == 0:
        raise ValueError("bit-string cannot be empty")
    number = 0
    for b in data:
        number = number * 2 + b
    if signed and bool(data[0] == 1):
        return number - (1 << len(data))
    return number


def construct_patches():
    """names rebound in construct.core while a decoder scenario runs"""
    return dict(
        io=types.SimpleNamespace(BytesIO=SymBytesIO, SEEK_SET=0, SEEK_CUR=1, SEEK_END=2),
        struct=types.SimpleNamespace(unpack=sym_unpack, pack=real_struct.pack, calcsize=real_struct.calcsize, error=real_struct.error),
        bytes2bits=sym_bytes2bits, bits2integer=sym_bits2integer, BytesIOWithOffsets=SymBytesIOWithOffsets)


def sym_isinstance(obj, cls):
    """isinstance that lets the symbolic stand-ins pass for the builtin types they model"""
    from .seq import SStr
    from .real import SReal
    from .seq import sym_int, sym_float, sym_str
    classes = cls if isinstance(cls, tuple) else (cls,)
    classes = tuple(int if c is sym_int else float if c is sym_float else str if c is sym_str else c for c in classes)   # the module's int/float/str are rebound
    cls = classes
    for c in classes:
        if c is str and isinstance(obj, SStr):
            return True
        if c is int and isinstance(obj, SInt):
            return True
        if c is float and isinstance(obj, SReal):
            return True
        if c is bytes and isinstance(obj, SBytes):
            return True
    return isinstance(obj, cls)


def sym_hasattr(obj, name):
    return hasattr(obj, name)


_HASH_FN = {}


def sym_hash(x):
    """hash() as an uninterpreted function of the (possibly symbolic) components: equal arguments give equal hashes."""
    import z3 as _z3
    if isinstance(x, tuple) and any(isinstance(e, SInt) for e in x):
        n = len(x)
        f = _HASH_FN.get(n)
        if f is None:
            f = _HASH_FN[n] = _z3.Function(f"hash{n}", *([_z3.IntSort()] * (n + 1)))
        args = []
        for e in x:
            if e is None:
                args.append(_z3.IntVal(-1))
            elif isinstance(e, SInt):
                t = e.t
                args.append(_z3.BV2Int(t, True) if _z3.is_bv(t) else t)
            else:
                args.append(_z3.IntVal(int(e)))
        return SInt(f(*args))
    return hash(x)



# ------------------------------------------------------------------------------------------------ range
class SymRange:
    """`range` whose membership test accepts symbolic integers (start <= x < stop and (x - start) % step == 0 as one term instead of
    1 comparison per element); bounds are concrete (a symbolic bound is concretised by enumeration), everything else is the real range."""

    def __init__(self, *args):
        self._r = range(*[concretize(a) if isinstance(a, SInt) else a for a in args])

    start = property(lambda self: self._r.start)
    stop = property(lambda self: self._r.stop)
    step = property(lambda self: self._r.step)

    def __iter__(self): return iter(self._r)
    def __len__(self): return len(self._r)
    def __reversed__(self): return reversed(self._r)
    def __repr__(self): return repr(self._r)
    def __eq__(self, o): return self._r == (o._r if isinstance(o, SymRange) else o)
    def __hash__(self): return hash(self._r)
    def __bool__(self): return bool(self._r)
    def index(self, x): return self._r.index(x)
    def count(self, x): return 1 if x in self else 0

    def __getitem__(self, i):
        r = self._r[concretize(i) if isinstance(i, SInt) else i]
        return SymRange(r.start, r.stop, r.step) if isinstance(r, range) else r

    def __contains__(self, x):
        if not isinstance(x, SInt):
            return x in self._r
        r = self._r
        if len(r) == 0:
            return False
        lo, hi = (r.start, r[-1]) if r.step > 0 else (r[-1], r.start)
        c = (x >= lo) & (x <= hi)
        if abs(r.step) != 1:
            c = c & (((x - r.start) % abs(r.step)) == 0)
        return bool(c)
