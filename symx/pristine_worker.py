"""Runs concrete scenarios on the unmodified repository code (no injection). JSON lines on stdin/stdout."""
import sys, json, logging
logging.disable(logging.CRITICAL)


def hdlc(job):
    from han import hdlc as H
    r = H.HdlcFrameReader(*job["cfg"])
    out = []
    for ch in job["chunks"]:
        for f in r.read(bytes.fromhex(ch)):
            p = f.payload
            out.append([f.as_bytes.hex(), bool(f.is_good_ffc), bool(f.is_expected_length), None if p is None else p.hex()])
    return out


HANDLERS = {"hdlc": hdlc}

if __name__ == "__main__":
    for line in sys.stdin:
        job = json.loads(line)
        try:
            res = {"ok": HANDLERS[job["kind"]](job)}
        except Exception as e:           # the worker reports, the caller judges
            res = {"exc": type(e).__name__, "msg": str(e)}
        sys.stdout.write(json.dumps(res) + "\n"); sys.stdout.flush()
