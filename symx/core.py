"""symx.core — path-wise symbolic execution of real Python functions on z3 terms (draft for round 1).

Engine: depth-first exploration by re-execution with a decision log.
  * every decision on symbolic data is logged: ('b', bool) for branches (free or forced), ('v', int) for
    value enumeration; a replayed prefix therefore needs no solver call and cannot drift;
  * per-path cache of decided conditions (by simplified-term id) and reuse of the last model;
  * each completed path ends with a satisfiability check of its path condition.
"""
from __future__ import annotations
import time
import z3

W = 64
SLOW_LOG = True


class PathAbort(KeyboardInterrupt):
    """Path cut: infeasible assumption or deliberate bound. (KeyboardInterrupt subclass: asyncio's Task.__step and
    construct's `except Exception` let it through.)"""


class CutPath(KeyboardInterrupt):
    """Cut raised inside coroutines (asyncio re-raises KeyboardInterrupt out of Task.__step)."""


class EngineLimit(KeyboardInterrupt):
    """Something the engine cannot encode: the run is inconclusive (exit 2)."""


class EngineFault(KeyboardInterrupt):
    """Internal inconsistency (exit 3)."""


class Engine:
    def __init__(self, timeout_ms=20000, max_decisions=400000, path_time_limit=300, slicing=False):
        self.path_time_limit = path_time_limit
        self.slicing = slicing        # valid(): first try with only the assertions that share symbols with the goal (cone of influence)
        self.facts = []               # (assertion, frozenset of its uninterpreted symbols) parallel to the solver's assertion stack
        self._varcache = {}
        self.solver = z3.Solver()
        self.solver.set("timeout", timeout_ms)
        self.timeout_ms = timeout_ms
        self.background = []          # facts re-asserted in every path (e.g. table facts)
        self.prefix = []
        self.log = []
        self.pending = []
        self.cache = {}
        self.rawcache = {}
        self.model = None
        self.fresh = 0
        self.max_decisions = max_decisions
        self.stats = dict(paths=0, aborted=0, abandoned=0, queries=0, solver_s=0.0, decisions=0, forced=0, cache_hits=0, replayed=0)
        self.limits = []              # reasons of abandoned paths (EngineLimit)
        self.stop = None              # callable -> True when exploration should stop early
        self.path_budget = None       # when set: after this many paths the unexplored prefixes are handed back in self.leftover
        self.leftover = []
        self.on_path_end = None
        self.on_path_fail = None       # hook(engine) called after a completed path, before the solver frame is popped
        self.frontier_depth = None    # when set: cut paths at this decision depth and collect prefixes
        self.frontier = []
        self.lin = LinStore()
        self.free_count = 0
        self.relaxations = 0

    # ------------------------------------------------------------------ solver access
    def fresh_name(self, base):
        self.fresh += 1
        return f"{base}!{self.fresh}"

    def check(self, *extra):
        t = time.time()
        r = self.solver.check(*extra)
        dt = time.time() - t
        self.stats["solver_s"] += dt
        self.stats["queries"] += 1
        if dt > 5 and SLOW_LOG:
            print(f"[symx] slow query {dt:.1f}s -> {r}", flush=True)
        if r == z3.unknown:
            raise EngineLimit("solver unknown: " + self.solver.reason_unknown())
        return r == z3.sat

    def add(self, c):
        self.solver.add(c)
        self.model = None
        if self.slicing:
            for x in (c if isinstance(c, (list, tuple)) else [c]):
                self.facts.append((x, self._symbols(x)))

    def _symbols(self, t):
        """names of the uninterpreted constants / functions occurring in a term (memoised by AST id)"""
        key = t.get_id()
        hit = self._varcache.get(key)
        if hit is not None:
            return hit[0]
        out, seen, stack = set(), set(), [t]
        while stack:
            x = stack.pop()
            i = x.get_id()
            if i in seen:
                continue
            seen.add(i)
            if z3.is_app(x):
                d = x.decl()
                if d.kind() == z3.Z3_OP_UNINTERPRETED and d.arity() == 0:
                    out.add(d.name())       # constants only: a shared function symbol (rn, pow2, hash) must not glue unrelated facts together
                stack.extend(x.children())
        r = frozenset(out)
        self._varcache[key] = (r, t)
        return r

    def _sliced_valid(self, cond):
        goal = set(self._symbols(cond))
        chosen, rest = [], list(self.facts)
        changed = True
        while changed:
            changed = False
            keep = []
            for f, vs in rest:
                if vs & goal:
                    chosen.append(f)
                    goal |= vs
                    changed = True
                else:
                    keep.append((f, vs))
            rest = keep
        s2 = z3.Solver()
        s2.set("timeout", 10000)
        s2.add(chosen)
        s2.add(z3.Not(cond))
        t = time.time()
        r = s2.check()
        self.stats["solver_s"] += time.time() - t
        self.stats["queries"] += 1
        self.stats["sliced"] = self.stats.get("sliced", 0) + 1
        return r == z3.unsat

    def get_model(self):
        if self.model is None:
            if not self.check():
                raise PathAbort()
            self.model = self.solver.model()
        return self.model

    # ------------------------------------------------------------------ decisions
    def _next_logged(self, kind):
        i = len(self.log)
        if i < len(self.prefix):
            k, v = self.prefix[i]
            if k != kind and not (kind == "b" and k == "f"):
                raise EngineFault(f"replay drift: expected {kind} got {k} at {i}")
            return True, v
        return False, None

    def _record(self, kind, v):
        self.log.append((kind, v))
        if len(self.log) > self.max_decisions:
            raise EngineLimit("decision limit")
        if self.frontier_depth is not None and self.free_count >= self.frontier_depth and len(self.log) > len(self.prefix):
            self.frontier.append(list(self.log))
            raise PathAbort()

    def _learn(self, hint, d):
        if hint is None:
            return
        if d and hint.rows is not None:
            self.lin.add_rows(hint.rows)
        elif d and hint.nrows is not None:
            self.lin.add_neg(hint.nrows)
        elif not d and hint.nrows is not None:
            self.lin.add_rows(hint.nrows)
        elif not d and hint.rows is not None:
            self.lin.add_neg(hint.rows)

    def branch(self, cond, hint=None):
        r = self._branch(cond, hint)
        self._learn(hint, r)
        return r

    def _branch(self, cond, hint=None):
        raw = cond
        hit = self.rawcache.get(raw.get_id())
        if hit is not None:
            self.stats["cache_hits"] += 1
            return hit[0]
        r = self._branch2(cond, hint)
        self.rawcache[raw.get_id()] = (r, raw)        # keeps `raw` alive, so its id cannot be reused
        return r

    def _branch2(self, cond, hint=None):
        cond = z3.simplify(cond)
        if z3.is_true(cond):
            return True
        if z3.is_false(cond):
            return False
        key = cond.get_id()
        hit = self.cache.get(key)
        if hit is not None:
            self.stats["cache_hits"] += 1
            return hit[0]
        if hint is not None and (hint.rows is not None or hint.nrows is not None):
            rows, pos = (hint.rows, True) if hint.rows is not None else (hint.nrows, False)
            v = self.lin.decide(rows)          # True: all zero; False: impossible; None: open
            if v is not None:
                self.stats["linear"] = self.stats.get("linear", 0) + 1
                d = v if pos else not v
                self.cache[key] = (d, cond)
                return d
        self.stats["decisions"] += 1
        replay, d = self._next_logged("b")
        if replay:
            self.stats["replayed"] += 1
            k = self.prefix[len(self.log)][0]
            self.free_count += k == "b"
            self.log.append((k, d))
            self.add(cond if d else z3.Not(cond))
            self.cache[key] = (d, cond)
            return d
        m = self.get_model()
        v = z3.is_true(m.eval(cond, model_completion=True))
        other = z3.Not(cond) if v else cond
        if self.check(other):
            m_other = self.solver.model()
            self.pending.append(list(self.log) + [("b", False)])
            self.solver.add(cond)
            if self.slicing:
                self.facts.append((cond, self._symbols(cond)))
            self.model = m if v else m_other
            self.cache[key] = (True, cond)
            self.free_count += 1
            self._record("b", True)
            return True
        self.stats["forced"] += 1
        self.cache[key] = (v, cond)
        self._record("f", v)
        return v

    def choose_value(self, t, limit=512):
        """Concretise term t by forking over its feasible values. The value tried is logged ('v'),
        the outcome of `t == value` is an ordinary logged branch, so replay needs no model.
        Order: the current model's value first; when the term turns out to have more than one feasible value, the boundary values
        of its sort next (all ones, sign boundaries, zero - whichever the path allows), then whatever the solver proposes: still an
        enumeration of every feasible value, but the corners come before the 2^k-th small number."""
        tried = set()
        for i in range(limit):
            replay, val = self._next_logged("v")
            if replay:
                self.log.append(("v", val))
            else:
                val = None
                if i > 0:
                    for c in _boundary_values(t):
                        if c in tried:
                            continue
                        tried.add(c)
                        try:
                            if self.solver.check(t == _const_like(c, t)) == z3.sat:
                                val = c
                                break
                        except z3.Z3Exception:
                            break
                    self.model = None
                if val is None:
                    v = self.get_model().eval(t, model_completion=True)
                    val = v.as_signed_long() if z3.is_bv(v) else v.as_long()
                self._record("v", val)
            tried.add(val)
            if self.branch(t == _const_like(val, t)):
                return val
        raise EngineLimit("too many values to concretise")

    def pick(self, n):
        """Harness-level enumeration: returns each of 0..n-1 on some path (no solver involved)."""
        replay, val = self._next_logged("p")
        if replay:
            self.log.append(("p", val))
            self.free_count += 1
            return val
        for i in range(n - 1, 0, -1):
            self.pending.append(list(self.log) + [("p", i)])
        self.free_count += 1
        self._record("p", 0)
        return 0

    def assume(self, cond):
        if isinstance(cond, SBool):
            cond = cond.t
        elif isinstance(cond, bool):
            if not cond:
                raise PathAbort()
            return
        self.add(cond)

    def valid(self, cond):
        """(True, None) iff cond holds for every input that follows this path, else (False, model)."""
        if isinstance(cond, SBool):
            if cond.rows is not None and self.lin.decide(cond.rows) is True:
                self.stats["linear"] = self.stats.get("linear", 0) + 1
                return True, None
            if cond.nrows is not None and self.lin.decide(cond.nrows) is False:
                self.stats["linear"] = self.stats.get("linear", 0) + 1
                return True, None
            cond = cond.t
        if isinstance(cond, bool):
            if cond:
                return True, None
            return False, self.get_model()
        cond = z3.simplify(cond)
        if z3.is_true(cond):
            self.stats["trivial"] = self.stats.get("trivial", 0) + 1
            return True, None
        if self.slicing and self._sliced_valid(cond):
            return True, None          # unsat under a subset of the path's assertions => unsat under all of them
        if self.check(z3.Not(cond)):
            return False, self.solver.model()
        return True, None

    # ------------------------------------------------------------------ exploration
    def explore(self, fn, roots=None):
        """Run fn(engine) once per path. roots: list of decision prefixes to explore (default: the whole tree)."""
        self.pending = [list(r) for r in (roots if roots is not None else [[]])]
        done0 = self.stats["paths"] + self.stats["aborted"] + self.stats["abandoned"]
        while self.pending:
            if self.path_budget is not None and self.stats["paths"] + self.stats["aborted"] + self.stats["abandoned"] - done0 >= self.path_budget:
                self.leftover = self.pending
                self.pending = []
                break
            if self.stop is not None and self.stop():
                self.stats["stopped_early"] = self.stats.get("stopped_early", 0) + len(self.pending)
                self.pending = []
                break
            self.prefix = self.pending.pop()
            self.log, self.cache, self.model = [], {}, None
            self.rawcache = {}
            self.lin = LinStore()
            self.free_count = 0
            self.facts = []
            self.relaxations = 0          # number of over-approximating (float model) constraints introduced on this path
            self.solver.push()
            try:
                if self.background:
                    self.solver.add(self.background)
                self._arm()
                fn(self)
                if not self.check():
                    raise EngineFault("completed path has an unsatisfiable condition")
                self.model = self.solver.model()
                if self.on_path_end is not None:
                    self.on_path_end(self)
                self.stats["paths"] += 1
            except PathAbort:
                self.stats["aborted"] += 1
            except EngineLimit as lim:
                self.stats["abandoned"] += 1
                if len(self.limits) < 20:
                    self.limits.append(str(lim)[:200])
                self._disarm()
                if self.on_path_fail is not None:
                    self.on_path_fail(self, "engine limit: " + str(lim))
            except HARNESS_SIDE as ex:
                self._disarm()
                self.stats["abandoned"] += 1
                if len(self.limits) < 20:
                    self.limits.append(f"solver binding error {type(ex).__name__}: {str(ex)[:120]}")
                if self.on_path_fail is not None:
                    self.on_path_fail(self, "solver binding error")
            except Exception as ex:
                self._disarm()
                if self.on_path_fail is not None and self.on_path_fail(self, f"{type(ex).__name__}: {ex}"):
                    self.stats["abandoned"] += 1          # a concrete violation was confirmed on this path; the exception is its symptom
                    if len(self.limits) < 20:
                        self.limits.append(f"path ended by {type(ex).__name__} (concrete violation confirmed)")
                else:
                    raise
            finally:
                self._disarm()
                self.solver.pop()
        return self.stats["paths"]

    # per-path wall-clock guard: a path that does not finish (e.g. the code under test loops) is abandoned, never waited for
    def _arm(self):
        import signal
        if self.path_time_limit:
            def on_alarm(signum, frame):
                raise EngineLimit(f"path exceeded {self.path_time_limit}s of wall time")
            try:
                signal.signal(signal.SIGALRM, on_alarm)
                signal.setitimer(signal.ITIMER_REAL, self.path_time_limit)
            except ValueError:
                pass

    def _disarm(self):
        import signal
        try:
            signal.setitimer(signal.ITIMER_REAL, 0)
        except ValueError:
            pass


def _boundary_values(t):
    if z3.is_bv(t):
        n = t.size()
        return [-1, -(1 << (n - 1)), (1 << (n - 1)) - 1, 0, 1]          # signed view of all-ones, sign bit, max positive
    return [255, 128, 127, 65535, 32768, 32767, (1 << 32) - 1, 1 << 31, (1 << 31) - 1, 0, 1, -1, -128, -32768, -(1 << 31)]


import ctypes as _ctypes
# raised by the solver bindings themselves (e.g. a solver call interrupted by the per-path alarm): never behaviour of the code under test
HARNESS_SIDE = (_ctypes.ArgumentError, z3.Z3Exception)


class LinStore:
    """Gauss-Jordan store of the GF(2)-affine equations asserted on the current path.
    Equation = (const, frozenset(atoms)) meaning const XOR atoms == 0. Sound linear reasoning only:
    decide() answers True/False when the linear part alone settles it, else None."""

    def __init__(self):
        self.piv = {}        # pivot atom -> (const, frozenset(other atoms))   [pivot = const XOR others]
        self.negs = []       # lists of rows known to be NOT all zero
        self.inconsistent = False

    def reduce(self, row):
        c, vs = row
        out = set()
        todo = list(vs)
        acc = set(vs)
        changed = True
        while changed:
            changed = False
            for a in list(acc):
                p = self.piv.get(a)
                if p is not None:
                    acc.discard(a)
                    c ^= p[0]
                    acc ^= p[1]
                    changed = True
        return (c, frozenset(acc))

    def add_rows(self, rows):
        for r in rows:
            c, vs = self.reduce(r)
            if not vs:
                if c:
                    self.inconsistent = True
                continue
            a = min(vs)
            expr = (c, vs - {a})
            # substitute a in the existing pivots
            for k, (pc, pv) in list(self.piv.items()):
                if a in pv:
                    self.piv[k] = (pc ^ expr[0], (pv - {a}) ^ expr[1])
            self.piv[a] = expr

    def add_neg(self, rows):
        self.negs.append(list(rows))

    def decide(self, rows):
        """True if every row reduces to 0; False if assuming them is linearly impossible; else None."""
        red = [self.reduce(r) for r in rows]
        if all(not vs and not c for c, vs in red):
            return True
        if any(not vs and c for c, vs in red):
            return False
        if self.negs:
            trial = LinStore()
            trial.piv = dict(self.piv)
            trial.add_rows(rows)
            if trial.inconsistent:
                return False
            for ns in self.negs:
                if all(trial.reduce(r) == (0, frozenset()) for r in ns):
                    return False
        return None


def _const_like(val, t):
    return z3.BitVecVal(val, t.size()) if z3.is_bv(t) else z3.IntVal(val)


ENG: Engine = None  # type: ignore


def set_engine(e):
    global ENG
    ENG = e
    return e


def eng():
    return ENG


class SBool:
    """rows: affine bits (const, frozenset(atoms)); when set, self <=> all rows are 0.
    nrows: when set, self <=> NOT all of nrows are 0."""
    __slots__ = ("t", "lin_bit", "rows", "nrows")

    def __init__(self, t, lin_bit=None, rows=None, nrows=None):
        self.t = t
        self.lin_bit = lin_bit
        self.rows = rows
        self.nrows = nrows

    def __bool__(self):
        if ENG is None:
            raise EngineFault("symbolic condition evaluated with no engine installed")   # BaseException: not swallowed
        return ENG.branch(self.t, hint=self)

    def __invert__(self):
        return SBool(z3.Not(self.t), rows=self.nrows, nrows=self.rows)

    def __and__(self, o):
        if isinstance(o, SBool) and self.rows is not None and o.rows is not None:
            return SBool(z3.And(self.t, o.t), rows=self.rows + o.rows)
        if o is True:
            return self
        return SBool(z3.And(self.t, bterm(o)))

    __rand__ = __and__

    def __or__(self, o):
        return SBool(z3.Or(self.t, bterm(o)))

    __ror__ = __or__

    def __eq__(self, o):
        return SBool(self.t == bterm(o))

    def __ne__(self, o):
        return SBool(self.t != bterm(o))

    __hash__ = None

    def __repr__(self):
        return f"SBool({self.t})"


def bterm(x):
    return x.t if isinstance(x, SBool) else z3.BoolVal(bool(x))
