"""symx.pool — split the decision tree at a frontier and explore the subtrees in worker processes."""
import multiprocessing as mp
import time
from . import core


_JOB = {}


def _worker(i):
    make_run, setup, roots = _JOB["make_run"], _JOB["setup"], _JOB["chunks"][i]
    eng = core.set_engine(core.Engine())
    run, collect = make_run(eng)
    if setup:
        setup(eng)
    eng.explore(run, roots=roots)
    return eng.stats, collect()


def explore_parallel(make_run, workers=16, frontier_depth=6, setup=None):
    """make_run(engine) -> (run, collect): run(engine) executes one path, collect() returns picklable results.
    The parent enumerates decision prefixes of length frontier_depth (cutting paths there); completed shorter
    paths are kept; each prefix subtree is explored by a worker (fork)."""
    t0 = time.time()
    eng = core.set_engine(core.Engine())
    run, collect = make_run(eng)
    if setup:
        setup(eng)
    eng.frontier_depth = frontier_depth
    eng.explore(run)
    roots = eng.frontier
    results = [(dict(eng.stats), collect())]
    if roots:
        chunks = [roots[i::workers] for i in range(min(workers, len(roots)))]
        _JOB.update(make_run=make_run, setup=setup, chunks=chunks)   # inherited by fork: nothing z3 is pickled
        ctx = mp.get_context("fork")
        with ctx.Pool(len(chunks)) as pool:
            results += pool.map(_worker, range(len(chunks)))
    stats = {}
    for s, _ in results:
        for k, v in s.items():
            stats[k] = stats.get(k, 0) + v
    stats["wall_s"] = time.time() - t0
    stats["subtrees"] = len(roots)
    return stats, [r for _, r in results]
