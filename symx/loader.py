"""symx.loader — AST rewrites of named repository functions, regenerated from the current source on every run:
if-conversion of assignment-only branches and f-string -> symbolic concatenation."""
import ast, inspect, textwrap
from .ints import ite
from .seq import fstr


class IfConv(ast.NodeTransformer):
    def __init__(self):
        self.n = 0

    @staticmethod
    def _simple(stmts):
        names = []
        for s in stmts:
            if isinstance(s, ast.Assign) and len(s.targets) == 1 and isinstance(s.targets[0], ast.Name):
                names.append(s.targets[0].id)
            elif isinstance(s, ast.AugAssign) and isinstance(s.target, ast.Name):
                names.append(s.target.id)
            else:
                return None
        return names

    def visit_If(self, node):
        self.generic_visit(node)
        a, b = self._simple(node.body), self._simple(node.orelse)
        if a is None or b is None:
            return node
        self.n += 1
        k = self.n
        names = sorted(set(a) | set(b))
        out = [ast.Assign([ast.Name(f"__c{k}", ast.Store())], node.test)]

        def arm(stmts, tag):
            res = [ast.Assign([ast.Name(f"__{v}_{tag}{k}", ast.Store())], ast.Name(v, ast.Load())) for v in names]
            ren = {v: f"__{v}_{tag}{k}" for v in names}

            class R(ast.NodeTransformer):
                def visit_Name(s, n):
                    return ast.copy_location(ast.Name(ren.get(n.id, n.id), n.ctx), n)
            return res + [R().visit(s) for s in stmts]
        out += arm(node.body, "t") + arm(node.orelse, "e")
        for v in names:
            out.append(ast.Assign([ast.Name(v, ast.Store())], ast.Call(ast.Name("__symx_ite", ast.Load()), [
                ast.Name(f"__c{k}", ast.Load()), ast.Name(f"__{v}_t{k}", ast.Load()), ast.Name(f"__{v}_e{k}", ast.Load())], [])))
        return [ast.copy_location(s, node) for s in out]


class FStr(ast.NodeTransformer):
    def __init__(self):
        self.n = 0

    def visit_JoinedStr(self, node):
        self.generic_visit(node)
        args = []
        for v in node.values:
            if isinstance(v, ast.Constant):
                args.append(v)
            elif isinstance(v, ast.FormattedValue) and v.conversion == -1 and v.format_spec is None:
                args.append(v.value)
            else:
                return node
        self.n += 1
        return ast.copy_location(ast.Call(ast.Name("__symx_fstr", ast.Load()), args, []), node)


class StripAnnotations(ast.NodeTransformer):
    def visit_FunctionDef(self, node):
        self.generic_visit(node)
        node.returns = None
        for a in node.args.posonlyargs + node.args.args + node.args.kwonlyargs + [x for x in (node.args.vararg, node.args.kwarg) if x]:
            a.annotation = None
        return node

    def visit_AnnAssign(self, node):
        self.generic_visit(node)
        if node.value is None:
            return None
        return ast.copy_location(ast.Assign([node.target], node.value), node)


class IfExpConv(ast.NodeTransformer):
    """a if c else b  ->  __symx_ifexp(c, lambda: a, lambda: b)   (lazy: a concrete condition evaluates one arm only)"""
    def __init__(self):
        self.n = 0

    def visit_IfExp(self, node):
        self.generic_visit(node)
        self.n += 1
        lam = lambda e: ast.Lambda(ast.arguments(posonlyargs=[], args=[], kwonlyargs=[], kw_defaults=[], defaults=[]), e)
        return ast.copy_location(ast.Call(ast.Name("__symx_ifexp", ast.Load()), [node.test, lam(node.body), lam(node.orelse)], []), node)


class ReturnIfConv(ast.NodeTransformer):
    """if c: return a  [else:] return b   ->   return __symx_ifexp(c, lambda: a, lambda: b)   (same lazy, non-forking conditional)"""
    def __init__(self):
        self.n = 0

    def _block(self, stmts):
        out, i = [], 0
        lam = lambda e: ast.Lambda(ast.arguments(posonlyargs=[], args=[], kwonlyargs=[], kw_defaults=[], defaults=[]), e)
        while i < len(stmts):
            st = stmts[i]
            if isinstance(st, ast.If) and len(st.body) == 1 and isinstance(st.body[0], ast.Return) and st.body[0].value is not None:
                other = None
                if len(st.orelse) == 1 and isinstance(st.orelse[0], ast.Return) and st.orelse[0].value is not None:
                    other, skip = st.orelse[0].value, 1
                elif not st.orelse and i + 1 < len(stmts) and isinstance(stmts[i + 1], ast.Return) and stmts[i + 1].value is not None:
                    other, skip = stmts[i + 1].value, 2
                if other is not None:
                    self.n += 1
                    call = ast.Call(ast.Name("__symx_ifexp", ast.Load()), [st.test, lam(st.body[0].value), lam(other)], [])
                    out.append(ast.copy_location(ast.Return(call), st))
                    i += skip
                    continue
            out.append(st)
            i += 1
        return out

    def visit_FunctionDef(self, node):
        self.generic_visit(node)
        node.body = self._block(node.body)
        return node


def rewrite(owner, name, if_conversion=False, fstrings=False, ifexp=False):
    """Recompile owner.name from its current source with the requested rewrites. Returns (restore, counts)."""
    fn = owner.__dict__[name] if isinstance(owner, type) else getattr(owner, name)
    wrapper = type(fn) if isinstance(fn, (staticmethod, classmethod, property)) else None
    raw = fn.__func__ if isinstance(fn, (staticmethod, classmethod)) else (fn.fget if isinstance(fn, property) else fn)
    tree = ast.parse(textwrap.dedent(inspect.getsource(raw)))
    tree.body[0].decorator_list = []
    tree = StripAnnotations().visit(tree)      # annotations are evaluated at def time and may mention rebound builtins (int, float)
    counts = {}
    if if_conversion:
        t = IfConv(); tree = t.visit(tree); counts["if"] = t.n
    if fstrings:
        t = FStr(); tree = t.visit(tree); counts["fstr"] = t.n
        t = JoinConv(); tree = t.visit(tree); counts["fstr"] += t.n
    if ifexp:
        t = IfExpConv(); tree = t.visit(tree); counts["ifexp"] = t.n
        t = ReturnIfConv(); tree = t.visit(tree); counts["ifexp"] += t.n
    tree = ast.fix_missing_locations(tree)
    g = raw.__globals__
    g["__symx_ite"] = ite
    g["__symx_fstr"] = fstr
    g["__symx_join"] = sym_join
    from .real import num_ifexp
    g["__symx_ifexp"] = num_ifexp
    ns = {}
    exec(compile(tree, f"<symx rewrite of {raw.__qualname__}>", "exec"), g, ns)
    new = ns[raw.__name__]
    new.__qualname__ = raw.__qualname__
    setattr(owner, name, wrapper(new) if wrapper else new)

    def restore():
        setattr(owner, name, fn)
    return restore, counts


class JoinConv(ast.NodeTransformer):
    """"sep".join(xs) -> __symx_join("sep", xs)  (str.join is C-level and needs real str items)"""
    def __init__(self):
        self.n = 0

    def visit_Call(self, node):
        self.generic_visit(node)
        f = node.func
        if isinstance(f, ast.Attribute) and f.attr == "join" and isinstance(f.value, ast.Constant) and isinstance(f.value.value, str) and len(node.args) == 1 and not node.keywords:
            self.n += 1
            return ast.copy_location(ast.Call(ast.Name("__symx_join", ast.Load()), [f.value, node.args[0]], []), node)
        return node


def sym_join(sep, items):
    from .seq import SStr
    out, first = [], True
    for it in items:
        if not first:
            out += [ord(c) for c in sep]
        first = False
        out += list(it._d) if isinstance(it, SStr) else [ord(c) for c in it]
    return SStr._mk(out)


def rewrite_adapter_lambda(module, name, keyword="decoder"):
    """Recompile, from the module's CURRENT source, the lambda passed as `keyword=` in the top-level assignment `name = ...ExprAdapter(...)`
    with f-strings and constant-separator joins made symbolic-aware, and install it on the adapter instance. Returns (restore, counts)."""
    src = inspect.getsource(module)
    tree = ast.parse(src)
    lam = None
    for st in tree.body:
        if isinstance(st, (ast.Assign, ast.AnnAssign)):
            tgt = st.targets[0] if isinstance(st, ast.Assign) else st.target
            if isinstance(tgt, ast.Name) and tgt.id == name and isinstance(st.value, ast.Call):
                for kw in st.value.keywords:
                    if kw.arg == keyword and isinstance(kw.value, ast.Lambda):
                        lam = kw.value
    if lam is None:
        raise ValueError(f"no lambda {keyword}= in the assignment of {name}")
    t1, t2 = FStr(), JoinConv()
    lam = t2.visit(t1.visit(lam))
    expr = ast.fix_missing_locations(ast.Expression(lam))
    g = module.__dict__
    g["__symx_fstr"] = fstr
    g["__symx_join"] = sym_join
    fn = eval(compile(expr, f"<symx rewrite of {module.__name__}.{name}.{keyword}>", "eval"), g)
    obj = getattr(module, name)
    old = obj._decode
    obj._decode = lambda o, ctx, path: fn(o, ctx)

    def restore():
        obj._decode = old
    return restore, {"fstr": t1.n, "join": t2.n}


def _pure_expr(e):
    """expression that can be evaluated eagerly without side effects or exceptions: names, constants, bit/arith operators"""
    if isinstance(e, (ast.Name, ast.Constant)):
        return True
    if isinstance(e, ast.BinOp) and isinstance(e.op, (ast.BitAnd, ast.BitOr, ast.BitXor, ast.LShift, ast.RShift, ast.Add, ast.Sub, ast.Mult)):
        return _pure_expr(e.left) and _pure_expr(e.right)
    if isinstance(e, ast.UnaryOp) and isinstance(e.op, (ast.Invert, ast.USub, ast.UAdd)):
        return _pure_expr(e.operand)
    return False


class SafeIfConv(IfConv):
    """if-conversion restricted to branches whose arms assign pure bit/arith expressions to local names (CRC-style bit loops):
    semantics-preserving wherever it applies, so it can be offered to every function of a module."""
    @staticmethod
    def _simple(stmts):
        names = IfConv._simple(stmts)
        if names is None:
            return None
        for s_ in stmts:
            if not _pure_expr(s_.value):
                return None
        return names

    def visit_If(self, node):
        self.generic_visit(node)
        if not node.orelse and not node.body:
            return node
        a, b = self._simple(node.body), self._simple(node.orelse)
        if a is None or b is None or not (a or b) or not _pure_expr(node.test):
            return node
        return IfConv.visit_If(self, node)


def safe_if_convert_module(module, skip=()):
    """offers SafeIfConv to every function and method defined in `module` (from its current source); returns (restore, {name: count})"""
    import types
    undo, done = [], {}
    targets = []
    for name, obj in list(vars(module).items()):
        if isinstance(obj, types.FunctionType) and obj.__module__ == module.__name__:
            targets.append((module, name, obj))
        elif isinstance(obj, type) and obj.__module__ == module.__name__:
            for mname, m in list(vars(obj).items()):
                raw = m.__func__ if isinstance(m, (staticmethod, classmethod)) else (m.fget if isinstance(m, property) else m)
                if isinstance(raw, types.FunctionType):
                    targets.append((obj, mname, raw))
    for owner, name, raw in targets:
        if name in skip or raw.__code__.co_filename.startswith("<symx"):
            continue
        try:
            tree = ast.parse(textwrap.dedent(inspect.getsource(raw)))
        except (OSError, TypeError, SyntaxError, IndentationError):
            continue
        t = SafeIfConv()
        t.visit(tree)
        if t.n == 0:
            continue
        try:
            restore, counts = rewrite_with(owner, name, lambda tr: SafeIfConv().visit(tr))
            undo.append(restore)
            done[f"{getattr(owner, '__name__', owner)}.{name}"] = t.n
        except Exception:
            continue

    def restore_all():
        for u in reversed(undo):
            u()
    return restore_all, done


def rewrite_with(owner, name, transform):
    fn = owner.__dict__[name] if isinstance(owner, type) else getattr(owner, name)
    wrapper = type(fn) if isinstance(fn, (staticmethod, classmethod, property)) else None
    raw = fn.__func__ if isinstance(fn, (staticmethod, classmethod)) else (fn.fget if isinstance(fn, property) else fn)
    tree = ast.parse(textwrap.dedent(inspect.getsource(raw)))
    tree.body[0].decorator_list = []
    tree = StripAnnotations().visit(tree)
    tree = transform(tree)
    tree = ast.fix_missing_locations(tree)
    g = raw.__globals__
    g["__symx_ite"] = ite
    ns = {}
    exec(compile(tree, f"<symx rewrite of {raw.__qualname__}>", "exec"), g, ns)
    new = ns[raw.__name__]
    new.__qualname__ = raw.__qualname__
    setattr(owner, name, wrapper(new) if wrapper else new)

    def restore():
        setattr(owner, name, fn)
    return restore, {}
