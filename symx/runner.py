"""symx.runner — drives the scenarios of one property check: parallel path exploration, per-path differential
replay on the pristine code, violation confirmation, known findings, evidence file, exit code.

Exit codes: 0 held on everything explored; 1 violation (replay-confirmed, not a known finding);
            2 inconclusive (abandoned paths / solver unknown / unconfirmed relaxed witness); 3 harness error.
"""
from __future__ import annotations
import os, sys, json, time, random, select, subprocess, collections, traceback, hashlib
import multiprocessing as mp
import z3
from . import core
from .core import Engine, PathAbort, EngineLimit, EngineFault, SBool

VERIF = os.path.dirname(os.path.dirname(os.path.abspath(__file__)))
REPO = os.environ.get("AMSHAN_REPO", "/repo")
EVID = os.environ.get("VERIF_EVIDENCE_DIR") or os.path.join(VERIF, "evidence")     # seed evaluations write their evidence elsewhere
KNOWN = os.path.join(VERIF, "known_findings.json")


# ------------------------------------------------------------------------------------------- concretisation
def conc(model, x):
    """Turn a structure with symbolic leaves into plain JSON data using `model` (bytes-like -> hex string)."""
    from .ints import SInt, model_int
    from .seq import SSeq, SStr, SBytes
    from .real import SReal
    if x is None or isinstance(x, (bool, str, float)):
        return x
    if isinstance(x, int):
        return x
    if isinstance(x, SBool):
        return z3.is_true(model.eval(x.t, model_completion=True))
    if isinstance(x, SInt):
        return model_int(model, x)
    if isinstance(x, SStr):
        return "".join(chr(v) for v in x.model_values(model))
    if isinstance(x, SSeq):
        return bytes(x.model_values(model)).hex()
    if isinstance(x, (bytes, bytearray)):
        return bytes(x).hex()
    if isinstance(x, SReal):
        v = model.eval(x.t, model_completion=True)
        try:
            return {"real": str(v.as_fraction())}
        except Exception:
            return {"real": str(v)}
    if isinstance(x, dict):
        return {str(k): conc(model, v) for k, v in x.items()}
    if isinstance(x, (list, tuple)):
        return [conc(model, v) for v in x]
    if z3.is_expr(x):
        v = model.eval(x, model_completion=True)
        if z3.is_bool(v):
            return z3.is_true(v)
        if z3.is_bv(v) or z3.is_int_value(v):
            return v.as_long()
        return str(v)
    return repr(x)


# ------------------------------------------------------------------------------------------- pristine client
class Pristine:
    def __init__(self):
        self.p = None

    def _start(self):
        env = dict(os.environ, PYTHONPATH=f"{REPO}:{VERIF}", PYTHONDONTWRITEBYTECODE="1")
        self.p = subprocess.Popen([sys.executable, "-m", "symx.pristine"], stdin=subprocess.PIPE, stdout=subprocess.PIPE,
                                  stderr=subprocess.DEVNULL, text=True, env=env, cwd=VERIF)

    def call(self, op, prop, w, timeout=60):
        if self.p is None or self.p.poll() is not None:
            self._start()
        try:
            self.p.stdin.write(json.dumps({"op": op, "prop": prop, "w": w}) + "\n")
            self.p.stdin.flush()
            r, _, _ = select.select([self.p.stdout], [], [], timeout)
            if not r:
                self.close(kill=True)
                return {"error": "timeout", "timeout": True}
            line = self.p.stdout.readline()
            if not line:
                self.close(kill=True)
                return {"error": "pristine worker died"}
            return json.loads(line)
        except (BrokenPipeError, OSError) as e:
            self.close(kill=True)
            return {"error": f"pipe: {e}"}

    def close(self, kill=False):
        if self.p is not None:
            try:
                if kill:
                    self.p.kill()
                else:
                    self.p.stdin.close()
                self.p.wait(timeout=5)
            except Exception:
                pass
            self.p = None


_PRISTINE = [None, None]


def _shared_pristine():
    """one pristine worker per process, reused by every scenario/task run in that process"""
    if _PRISTINE[0] is None or _PRISTINE[1] != os.getpid():
        _PRISTINE[0], _PRISTINE[1] = Pristine(), os.getpid()
    return _PRISTINE[0]


# ------------------------------------------------------------------------------------------- known findings
def load_known():
    try:
        with open(KNOWN) as fh:
            data = json.load(fh)
    except FileNotFoundError:
        return {}
    return {(f["property"], f["signature"]): f for f in data.get("findings", [])}


# ------------------------------------------------------------------------------------------- scenario / ctx
class Scenario:
    def __init__(self, name, path, bounds=None, domains=(), frontier=5, replay_cap=150, must_reach=("assert",),
                 engine_opts=None, workers=16, assumptions=(), prepare=None, path_budget=24, time_budget_s=None):
        self.name, self.path, self.bounds = name, path, dict(bounds or {})
        self.domains, self.frontier, self.replay_cap = tuple(domains), frontier, replay_cap
        self.must_reach, self.engine_opts, self.workers = tuple(must_reach), dict(engine_opts or {}), workers
        self.assumptions = list(assumptions)
        self.path_budget = path_budget
        self.time_budget_s = time_budget_s      # wall-clock cap of the scenario (default: 600 s quick / 2400 s thorough); exceeding it is inconclusive
        self.prepare = prepare       # optional callable run once in the parent after injection (returns extra state)


class Ctx:
    """Collector living in one process for one scenario."""
    MAX_CAND = 4

    def __init__(self, prop, scen, seed, known, stop_flag):
        self.prop, self.scen, self.seed, self.known, self.stop_flag = prop, scen, seed, known, stop_flag
        self.c = collections.Counter()
        self.samples = []
        self.confirmed = []       # {"signature","detail","w","what","known"}
        self.unconfirmed = []     # {"what","w","relaxed","error"}
        self.mismatches = []
        self.replays_ok = 0
        self.pristine = _shared_pristine()
        self.rng = random.Random(seed)
        self.witness = None
        self.obs = None
        self.path_keys = set()
        self._nontrivial = False
        self.pending, self.pending_alts = None, None
        self.extra = {}

    # -- per path
    def begin(self):
        self.witness, self.obs, self._nontrivial = None, None, False
        self.pending, self.pending_alts = None, None

    def reach(self, key):
        self.c["reach:" + key] += 1

    def nontrivial(self):
        self._nontrivial = True

    def count(self, key, n=1):
        self.c[key] += n

    # -- assertions
    def check(self, cond, what, witness=None, relaxed=False, learn=False):
        """Assert cond for every input following the current path. Returns True when proved.
        learn: a proved condition is added to the path's solver context as a lemma for later queries (sound: it was just proved)."""
        eng = core.ENG
        self.c["checks"] += 1
        self.reach("assert")
        ok, m = eng.valid(cond)
        if ok:
            self.c["proved"] += 1
            if learn:
                c = cond.t if isinstance(cond, SBool) else cond
                if not isinstance(c, bool):
                    eng.add(c)
            return True
        relaxed = relaxed or getattr(eng, "relaxations", 0) > 0        # anything computed through the float model may be an artefact
        if relaxed and not callable(witness if witness is not None else self.witness):
            # the relaxed (over-approximating) float model may produce artefacts: try several distinct models before giving up
            w = witness if witness is not None else self.witness
            if self._try_models(cond, what, w, m):
                return False
            return False
        self.violation(what, witness=witness, model=m, relaxed=relaxed)
        return False

    def _try_models(self, cond, what, w, m, attempts=12):
        """returns True when some model's concrete witness reproduces on the pristine code"""
        eng = core.ENG
        c = cond.t if isinstance(cond, SBool) else cond
        leaves = []

        def walk(x):
            from .ints import SInt
            from .seq import SSeq
            if isinstance(x, SInt):
                leaves.append(x.t)
            elif isinstance(x, SSeq):
                for e in x._d:
                    walk(e)
            elif isinstance(x, dict):
                for v in x.values():
                    walk(v)
            elif isinstance(x, (list, tuple)):
                for v in x:
                    walk(v)
        walk(w)
        before = len(self.confirmed)
        n_unconf = len(self.unconfirmed)
        eng.solver.push()
        try:
            if not isinstance(c, bool):
                eng.solver.add(z3.Not(c))
            for k in range(attempts):
                self.violation(what, witness=w, model=m, relaxed=True)
                if len(self.confirmed) > before:
                    del self.unconfirmed[n_unconf:]
                    return True
                if not leaves:
                    break
                eng.solver.add(z3.Or([t != m.eval(t, model_completion=True) for t in leaves]))
                try:
                    if not eng.check():
                        break
                except EngineLimit:
                    break
                m = eng.solver.model()
            del self.unconfirmed[n_unconf + 1:]          # keep one representative of the non-reproducing witnesses
            return False
        finally:
            eng.solver.pop()
            eng.model = None

    # -- concrete fallback: boundary-biased models of the current path condition, judged on the pristine code
    def _leaves(self, w, cap=96):
        from .ints import SInt
        from .seq import SSeq
        leaves, seen = [], set()

        def walk(x):
            if len(leaves) >= cap:
                return
            if isinstance(x, SInt):
                try:
                    t = x.t
                except Exception:
                    return
                if z3.is_expr(t) and not (z3.is_bv_value(t) or z3.is_int_value(t)):
                    k = t.get_id()
                    if k not in seen:
                        seen.add(k); leaves.append(t)
            elif isinstance(x, SSeq):
                for e in x._d:
                    walk(e)
            elif isinstance(x, dict):
                for v in x.values():
                    walk(v)
            elif isinstance(x, (list, tuple)):
                for v in x:
                    walk(v)
        walk(w)
        return leaves

    def _pattern_models(self, w, patterns=("max", "hi", "lo", "min", "rand", "rand")):
        """models of the current path condition that push the witness' free values towards boundary patterns (all ones, sign
        boundary, zero, random); each is a genuine model of the path condition. Used only to look for a concrete, replayable
        violation after the symbolic encoding gave up or its first witness did not reproduce - never to claim that a property holds."""
        eng = core.ENG
        if callable(w):
            return
        leaves = self._leaves(w)
        if not leaves:
            return
        s = eng.solver
        t_end = time.time() + 40                      # the whole search is bounded: it is a courtesy, not part of the verdict
        for pat in patterns:
            if time.time() > t_end:
                return
            s.push()
            s.set("timeout", 1500)
            try:
                order = list(leaves)
                if pat == "rand":
                    self.rng.shuffle(order)
                for t in order:
                    if time.time() > t_end:
                        break
                    if z3.is_bv(t):
                        n = t.size()
                        val = {"max": (1 << n) - 1, "hi": 1 << (n - 1), "lo": (1 << (n - 1)) - 1, "min": 0}.get(pat)
                        if val is None:
                            val = self.rng.getrandbits(n)
                        c = t == z3.BitVecVal(val, n)
                    elif z3.is_int(t):
                        val = {"max": 255, "hi": 128, "lo": 127, "min": 0}.get(pat)
                        if val is None:
                            val = self.rng.getrandbits(8)
                        c = t == val
                    else:
                        continue
                    try:
                        if s.check(c) == z3.sat:
                            s.add(c)
                    except Exception:
                        break
                if s.check() == z3.sat:
                    yield s.model()
            finally:
                s.pop()
                s.set("timeout", getattr(eng, "timeout_ms", 20000))
                eng.model = None

    def _judge_models(self, w, what, models):
        """-> True when one of the models gives a witness that the concrete judge flags on the pristine code"""
        for m in models:
            try:
                cw = conc(m, w)
            except Exception:
                continue
            key = hashlib.sha1(json.dumps(["fb", cw], sort_keys=True, default=str).encode()).hexdigest()
            if key in self.path_keys:
                continue
            self.path_keys.add(key)
            r = self.pristine.call("judge", self.prop, cw)
            v = r.get("verdict")
            if v:
                k = (self.prop, v["signature"]) in self.known
                if sum(1 for x in self.confirmed if x["signature"] == v["signature"]) < self.MAX_CAND:
                    self.confirmed.append({"signature": v["signature"], "detail": v.get("detail", ""), "w": cw, "what": what, "known": k})
                if not k and self.stop_flag is not None:
                    self.stop_flag.value = 1
                return True
        return False

    def fallback(self, eng, reason):
        """the path could not be completed symbolically (engine limit, or an exception the harness did not expect): look for a
        concrete violation among boundary-biased models of the path condition reached so far. Finding none proves nothing - the
        path stays abandoned / the exception stays a harness error."""
        w = self.pending if self.pending is not None else self.witness
        if w is None or callable(w) or self.c["fallbacks"] >= 14:
            return False
        self.c["fallbacks"] += 1
        try:
            eng.solver.set("timeout", 5000)
            if eng.solver.check() != z3.sat:
                return False
            base = [eng.solver.model()]
        except Exception:
            return False
        finally:
            eng.solver.set("timeout", getattr(eng, "timeout_ms", 20000))
        import itertools
        what = f"concrete fallback after: {reason[:120]}"
        try:
            if self._judge_models(w, what, itertools.chain(base, self._pattern_models(w))):
                return True
        except (EngineLimit, PathAbort):
            return False
        if self.pending_alts is not None:           # the siblings the harness would have run next, under the plain model
            t_end, n = time.time() + 40, 0
            try:
                for wa in self.pending_alts():
                    n += 1
                    if n > 400 or time.time() > t_end:
                        break
                    if self._judge_models(wa, what, base):
                        return True
            except (EngineLimit, PathAbort):
                return False
        return False

    def intend(self, w, alts=None):
        """witness of what is about to be executed (used by the concrete fallback when the run itself fails); alts: callable giving
        the sibling witnesses the harness would have executed next (other splittings of the same stream, ...)"""
        self.pending = w
        if alts is not None:
            self.pending_alts = alts
        return w

    def check_iff(self, got, spec, what, witness=None):
        """got <=> spec, decided by forking on `got` (the linear store then settles XOR-system equivalences)."""
        if not isinstance(got, SBool):
            self.reach("iff:true" if got else "iff:false")
            return self.check(spec if got else (~spec if isinstance(spec, SBool) else (not spec)), what + (" [=>]" if got else " [<=]"), witness)
        if bool(got):
            self.reach("iff:true")
            return self.check(spec, what + " [=>]", witness)
        self.reach("iff:false")
        return self.check(~spec if isinstance(spec, SBool) else (not spec), what + " [<=]", witness)

    def violation(self, what, witness=None, model=None, relaxed=False):
        eng = core.ENG
        relaxed = relaxed or getattr(eng, "relaxations", 0) > 0
        self.c["failed_checks"] += 1
        self.reach("assert")
        if len(self.confirmed) + len(self.unconfirmed) >= self.MAX_CAND * 4:
            return
        w = witness if witness is not None else self.witness
        if w is None:
            self.unconfirmed.append({"what": what, "w": None, "relaxed": relaxed, "error": "no witness builder"})
            return
        m = model if model is not None else eng.get_model()
        if callable(w):
            w = w(m)                 # witness built from the model (e.g. an operation sequence whose length is a model value)
            if w is None:
                self.unconfirmed.append({"what": what, "w": None, "relaxed": True, "error": "no replayable witness for this model"})
                return
        cw = conc(m, w)
        key = hashlib.sha1(json.dumps([what.split(":")[0], cw], sort_keys=True).encode()).hexdigest()
        if key in self.path_keys:
            return
        self.path_keys.add(key)
        r = self.pristine.call("judge", self.prop, cw)
        v = r.get("verdict")
        if v:
            k = (self.prop, v["signature"]) in self.known
            if sum(1 for x in self.confirmed if x["signature"] == v["signature"]) < self.MAX_CAND:
                self.confirmed.append({"signature": v["signature"], "detail": v.get("detail", ""), "w": cw, "what": what, "known": k})
            if not k and self.stop_flag is not None:
                self.stop_flag.value = 1
        else:
            if not relaxed and not callable(witness if witness is not None else self.witness) and self.c["fallbacks"] < 14:
                self.c["fallbacks"] += 1
                try:
                    if self._judge_models(w, what + " [boundary-biased model]", self._pattern_models(w)):
                        return
                except (EngineLimit, PathAbort):
                    pass
            self.unconfirmed.append({"what": what, "w": cw, "relaxed": relaxed, "error": r.get("error"), "tb": r.get("tb")})
            # a witness that does not reproduce is a harness error in the end (exit 3) - but a few more paths are explored first: the
            # discrepancy is often the symptom of a change that a neighbouring path exposes in a reproducible way
            if not relaxed and self.stop_flag is not None and sum(1 for u in self.unconfirmed if not u["relaxed"]) >= 4:
                self.stop_flag.value = 2

    # -- end of path: differential replay on the pristine code
    def end_path(self, eng):
        self.c["paths"] += 1
        if self._nontrivial:
            self.c["nontrivial"] += 1
        if self.witness is None:
            return
        n = self.c["paths"]
        cap = self.scen.replay_cap                      # per process-task: first few paths, then a thinning random sample
        take = n <= max(2, cap // 12) or self.rng.random() < cap / (12.0 * n)
        if len(self.samples) < 3 or take:
            m = eng.model
            cw = conc(m, self.witness)
            if len(self.samples) < 3:
                self.samples.append({"scenario": self.scen.name, "witness": cw, "decisions": len(eng.log)})
            if take and self.obs is not None:
                exp = conc(m, self.obs)
                r = self.pristine.call("observe", self.prop, cw)
                if "obs" in r and r["obs"] == json.loads(json.dumps(exp)):
                    self.replays_ok += 1
                else:
                    # the real code behaves differently from the symbolic run on this input; if the concrete oracle finds the
                    # property violated on it, that is the finding (confirmed on the real code) - otherwise a harness error
                    rj = self.pristine.call("judge", self.prop, cw)
                    v = rj.get("verdict")
                    if v:
                        k = (self.prop, v["signature"]) in self.known
                        self.confirmed.append({"signature": v["signature"], "detail": v.get("detail", ""), "w": cw, "what": "differential replay", "known": k})
                        if not k and self.stop_flag is not None:
                            self.stop_flag.value = 1
                    else:
                        if len(self.mismatches) < 5:
                            self.mismatches.append({"w": cw, "expected": exp, "pristine": r})
                        self.c["replay_mismatch"] += 1

    def export(self):
        return dict(c=dict(self.c), samples=self.samples, confirmed=self.confirmed, unconfirmed=self.unconfirmed,
                    mismatches=self.mismatches, replays_ok=self.replays_ok, extra=self.extra)


# ------------------------------------------------------------------------------------------- function coverage
_FUNCS = set()


def _monitor_on():
    mon = getattr(sys, "monitoring", None)
    if mon is None:
        return
    tool = 3
    try:
        mon.use_tool_id(tool, "symx")
    except ValueError:
        return
    han_dir = os.path.join(REPO, "han") + os.sep

    def on_start(code, offset):
        fn = code.co_filename
        if fn.startswith(han_dir):
            _FUNCS.add(f"{os.path.basename(fn)[:-3]}.{code.co_qualname}")
        elif fn.startswith("<symx rewrite of "):
            _FUNCS.add(fn[len("<symx rewrite of "):-1] + " [rewritten from source]")
        return mon.DISABLE
    mon.register_callback(tool, mon.events.PY_START, on_start)
    mon.set_events(tool, mon.events.PY_START)


def _monitor_reset():
    mon = getattr(sys, "monitoring", None)
    if mon is not None:
        try:
            mon.restart_events()
        except Exception:
            pass


# ------------------------------------------------------------------------------------------- exploration
_JOB = {}


def _make_engine(scen):
    eng = core.set_engine(Engine(**scen.engine_opts))
    return eng


def _explore(scen, prop, seed, known, stop_flag, roots, frontier_depth=None, path_budget=None):
    eng = _make_engine(scen)
    eng.path_budget = path_budget
    ctx = Ctx(prop, scen, seed, known, stop_flag)
    for hook in _JOB.get("engine_hooks", []):
        hook(eng)
    eng.on_path_end = ctx.end_path
    eng.on_path_fail = ctx.fallback
    deadline = _JOB.get("deadline")

    def should_stop():
        if stop_flag is not None and stop_flag.value != 0:
            return True
        if deadline is not None and time.time() > deadline:
            if "scenario time budget exhausted" not in eng.limits:
                eng.limits.append("scenario time budget exhausted")
            return True
        return False
    eng.stop = should_stop
    eng.frontier_depth = frontier_depth

    reset_shared = _JOB.get("reset_shared")

    def run(e):
        if reset_shared is not None:
            reset_shared()                 # every path starts from the import-time state of the code's long-lived mutable objects
        ctx.begin()
        scen.path(e, ctx)
    fault = None
    try:
        eng.explore(run, roots=roots)
    except EngineFault as ex:
        fault = f"EngineFault: {ex}"
    except Exception as ex:               # an exception of the code under test that the harness did not expect
        fault = f"harness exception {type(ex).__name__}: {ex}\n" + traceback.format_exc()[-1200:]
    out = ctx.export()
    out["stats"] = dict(eng.stats)
    out["limits"] = list(eng.limits)
    out["frontier"] = eng.frontier
    out["leftover"] = eng.leftover
    out["fault"] = fault
    out["funcs"] = sorted(_FUNCS)
    return out


def _worker(args):
    i, roots = args
    j = _JOB
    _die_with_parent()
    _monitor_reset()
    return _explore(j["scen"], j["prop"], j["seed"] + 1 + i, j["known"], j["stop"], roots, path_budget=j["budget"])


def run_scenario(scen, prop, seed, known, engine_hooks=()):
    t0 = time.time()
    stop = mp.get_context("fork").Value("i", 0)
    budget = scen.time_budget_s or (300 if os.environ.get("VERIF_TIER_EFFECTIVE", "quick") == "quick" else 2400)
    _JOB.update(scen=scen, prop=prop, seed=seed, known=known, stop=stop, engine_hooks=list(engine_hooks), deadline=t0 + budget)
    first = _explore(scen, prop, seed, known, stop, None, frontier_depth=scen.frontier if scen.workers > 1 else None)
    results = [first]
    roots = first.pop("frontier")
    first.pop("leftover", None)
    if roots and not first["fault"]:
        nw = scen.workers
        _JOB["budget"] = scen.path_budget
        if _PRISTINE[0] is not None:
            _PRISTINE[0].close()              # children must not share the parent's pipe
            _PRISTINE[0] = None
        queue = collections.deque([r] for r in roots)
        ctx = mp.get_context("fork")
        ntask = 0
        with ctx.Pool(nw) as pool:
            inflight = []
            while queue or inflight:
                while queue and len(inflight) < nw:
                    # hand out small batches while workers are idle, larger ones when the queue is long
                    take = max(1, min(len(queue) // (2 * nw), 8))
                    batch = [x for _ in range(take) for x in queue.popleft()]
                    ntask += 1
                    inflight.append(pool.apply_async(_worker, ((ntask, batch),)))
                done = [r for r in inflight if r.ready()]
                if not done:
                    time.sleep(0.005)
                    continue
                for r in done:
                    inflight.remove(r)
                    res = r.get()
                    for lo in res.pop("leftover", []):
                        queue.append([lo])
                    results.append(res)
    for r in results:
        r.pop("frontier", None)
        r.pop("leftover", None)
    return merge(scen, results, time.time() - t0, len(roots))


def _die_with_parent():
    """a forked scenario/worker process must not outlive the check that started it (e.g. when the check is killed by a time-out)"""
    try:
        import ctypes, signal
        ctypes.CDLL("libc.so.6", use_errno=True).prctl(1, signal.SIGKILL)      # PR_SET_PDEATHSIG
    except Exception:
        pass


def _scenario_child(conn, scen, prop, seed, known):
    from . import inject
    _die_with_parent()
    try:
        restore = inject.install(scen.domains)
        try:
            hooks = inject.engine_hooks(scen.domains)
            if scen.prepare:
                scen.prepare()
            _JOB["reset_shared"] = inject.snapshot_shared_state()
            rep = run_scenario(scen, prop, seed, known, hooks)
            rep["inject_info"] = dict(inject.INFO)
        finally:
            restore()
        rep["funcs"] = sorted(rep["funcs"])
        conn.send(rep)
    except BaseException as e:
        conn.send({"child_error": f"{type(e).__name__}: {e}\n{traceback.format_exc()[-1500:]}"})
    finally:
        conn.close()


def _child_report(scen, rep):
    if "child_error" in rep:
        rep = dict(name=scen.name, bounds=scen.bounds, c={}, stats={}, samples=[], confirmed=[], unconfirmed=[], mismatches=[], replays_ok=0, limits=[],
                   faults=[rep["child_error"]], funcs=[], wall_s=0, subtrees=0, missing_reach=[], extra={}, assumptions=list(scen.assumptions))
    rep["funcs"] = set(rep["funcs"])
    return rep


def _start_isolated(scen, prop, seed, known):
    ctx = mp.get_context("fork")
    parent, child = ctx.Pipe(duplex=False)
    p = ctx.Process(target=_scenario_child, args=(child, scen, prop, seed, known))
    p.start()
    child.close()
    return p, parent


def run_isolated(scen, prop, seed, known):
    """Each scenario runs in its own process forked from the (solver-free) driver: the solver's state, term numbering and
    the injected names never leak from one scenario into the next, so a scenario's result does not depend on what ran before it."""
    p, parent = _start_isolated(scen, prop, seed, known)
    try:
        rep = parent.recv()
    except EOFError:
        rep = {"child_error": "scenario process died without a report"}
    p.join()
    return _child_report(scen, rep)


def run_isolated_many(scens, prop, seed, known, budget_s, t0, on_report, cores=None):
    """Run the scenarios, each in its own forked process, several at a time while the sum of their worker counts fits the
    cores; start order = list order, reports are returned in list order. A scenario that fails stops new scenarios from starting."""
    from multiprocessing.connection import wait
    cores = cores or int(os.environ.get("VERIF_CORES", "0") or 0) or (os.cpu_count() or 16)
    reports = [None] * len(scens)
    running = {}                                   # pipe -> (index, process)
    nxt, used, stop_all = 0, 0, False
    def bad(rep):
        return any(not v["known"] for v in rep["confirmed"]) or rep["faults"] or rep["mismatches"] or any(not u["relaxed"] for u in rep["unconfirmed"])
    while nxt < len(scens) or running:
        while nxt < len(scens) and not stop_all:
            scen = scens[nxt]
            need = min(max(1, scen.workers), cores)
            if running and used + need > cores:
                break
            if budget_s is not None and time.time() - t0 > budget_s:
                reports[nxt] = dict(name=scen.name, bounds=scen.bounds, skipped="time budget of the tier exhausted", c={}, stats={}, samples=[], confirmed=[],
                                    unconfirmed=[], mismatches=[], replays_ok=0, limits=["tier budget"], faults=[], funcs=set(), wall_s=0, subtrees=0, missing_reach=[], extra={})
                nxt += 1
                continue
            p, parent = _start_isolated(scen, prop, seed, known)
            running[parent] = (nxt, p, need)
            used += need
            nxt += 1
        if stop_all and not running:
            break
        if not running:
            continue
        for conn in wait(list(running)):
            i, p, need = running.pop(conn)
            try:
                rep = conn.recv()
            except EOFError:
                rep = {"child_error": "scenario process died without a report"}
            p.join()
            conn.close()
            used -= need
            reports[i] = _child_report(scens[i], rep)
            on_report(scens[i], reports[i])
            if bad(reports[i]):
                stop_all = True
    return [r for r in reports if r is not None]


def merge(scen, results, wall, subtrees):
    c = collections.Counter()
    stats = collections.Counter()
    out = dict(name=scen.name, bounds=scen.bounds, samples=[], confirmed=[], unconfirmed=[], mismatches=[], replays_ok=0,
               limits=[], faults=[], funcs=set(), wall_s=round(wall, 2), subtrees=subtrees, extra={}, assumptions=list(scen.assumptions))
    for r in results:
        c.update(r["c"])
        for k, v in r["stats"].items():
            stats[k] += v
        out["samples"] += r["samples"][: max(0, 3 - len(out["samples"]))]
        out["confirmed"] += r["confirmed"]
        out["unconfirmed"] += r["unconfirmed"]
        out["mismatches"] += r["mismatches"]
        out["replays_ok"] += r["replays_ok"]
        out["limits"] += r["limits"]
        out["funcs"].update(r["funcs"])
        if r["fault"]:
            out["faults"].append(r["fault"])
        for k, v in r.get("extra", {}).items():
            out["extra"].setdefault(k, []).append(v)
    out["c"], out["stats"] = dict(c), {k: (round(v, 2) if isinstance(v, float) else v) for k, v in stats.items()}
    out["missing_reach"] = [k for k in scen.must_reach if c.get("reach:" + k, 0) == 0]
    return out


# ------------------------------------------------------------------------------------------- check driver
def tier_from_argv(argv=None):
    argv = sys.argv[1:] if argv is None else argv
    tier = os.environ.get("VERIF_TIER") or "quick"
    if "--tier" in argv:
        tier = argv[argv.index("--tier") + 1]
    return "thorough" if tier.startswith("t") else "quick"


def run_check(prop, level, scenarios, tier, *, technique, assumptions=(), outside=(), lemma_results=None, budget_s=None,
              trusted_base=(), checker_cmd=None):
    """scenarios: list[Scenario] (already specialised for the tier). lemma_results: optional list of closed obligations
    {"name","status":"unsat"|"sat"|"unknown","solver_s", "second": ...} discharged by direct solver queries."""
    from . import inject
    seed = int(os.environ.get("VERIF_SEED", "0") or 0)
    os.environ["VERIF_TIER_EFFECTIVE"] = tier
    t0 = time.time()
    known = load_known()
    _monitor_on()
    def on_report(scen, rep):
        print(f"[{prop}] {scen.name}: paths={rep['c'].get('paths', 0)} proved={rep['c'].get('proved', 0)}/{rep['c'].get('checks', 0)} "
              f"queries={rep['stats'].get('queries', 0)} abandoned={rep['stats'].get('abandoned', 0)} replays={rep['replays_ok']} "
              f"confirmed={len(rep['confirmed'])} wall={rep['wall_s']}s", flush=True)
    reports = run_isolated_many(list(scenarios), prop, seed, known, budget_s, t0, on_report)
    return finish(prop, level, tier, seed, reports, time.time() - t0, technique, assumptions, outside, lemma_results or [], trusted_base, checker_cmd)


def finish(prop, level, tier, seed, reports, wall, technique, assumptions, outside, lemmas, trusted_base, checker_cmd):
    os.makedirs(os.path.join(EVID, "replays"), exist_ok=True)
    tot, stats = collections.Counter(), collections.Counter()
    funcs, samples = set(), []
    confirmed, unconfirmed, mismatches, faults, limits, vacuous, skipped = [], [], [], [], [], [], []
    replays = 0
    for r in reports:
        tot.update(r["c"])
        for k, v in r["stats"].items():
            stats[k] += v
        funcs.update(r["funcs"])
        samples += r["samples"][:2]
        confirmed += r["confirmed"]
        unconfirmed += r["unconfirmed"]
        mismatches += r["mismatches"]
        faults += r["faults"]
        limits += [f"{r['name']}: {x}" for x in r["limits"]]
        replays += r["replays_ok"]
        if r.get("skipped"):
            skipped.append(r["name"])
        elif r["missing_reach"] and not r["confirmed"] and not r["faults"]:
            vacuous.append(f"{r['name']}: never reached {r['missing_reach']}")
    lemma_bad = [l for l in lemmas if l["status"] != "unsat"]
    # ---- classify
    new_viol, known_hit = [], {}
    for v in confirmed:
        if v["known"]:
            known_hit.setdefault(v["signature"], v)
        else:
            new_viol.append(v)
    lines, code = [], 0
    for sig, v in sorted(known_hit.items()):
        lines.append(f"KNOWN-FINDING: property={prop} {sig} :: {v['detail'][:160]}")
    seen_sig = set()
    k = 0
    for v in new_viol:
        if v["signature"] in seen_sig:
            continue
        seen_sig.add(v["signature"])
        path = os.path.join(EVID, "replays", f"{prop}-{k}.json")
        with open(path, "w") as fh:
            json.dump({"prop": prop, "w": v["w"], "signature": v["signature"], "detail": v["detail"], "what": v["what"]}, fh, indent=1)
        lines.append(f"VIOLATION property={prop} replay={path}")
        lines.append(f"  signature: {v['signature']} :: {v['detail'][:300]}")
        k += 1
        code = 1
    for l in lemma_bad:
        if l["status"] == "sat":
            path = os.path.join(EVID, "replays", f"{prop}-lemma-{l['name']}.json")
            with open(path, "w") as fh:
                json.dump({"prop": prop, "w": l.get("witness"), "signature": f"lemma:{l['name']}", "detail": l.get("detail", ""), "what": "lemma"}, fh, indent=1)
            if l.get("confirmed"):
                lines.append(f"VIOLATION property={prop} replay={path}")
                lines.append(f"  lemma {l['name']} refuted: {l.get('detail', '')[:300]}")
                code = 1
    hard_unconf = [u for u in unconfirmed if not u["relaxed"]]
    if code == 0:
        if faults or mismatches or hard_unconf or vacuous:
            code = 3
        elif stats.get("abandoned", 0) or limits or [u for u in unconfirmed if u["relaxed"]] or skipped or [l for l in lemma_bad if not l.get("confirmed")]:
            code = 2
    for f in faults[:3]:
        lines.append(f"HARNESS-ERROR: {f[:1500]}")
    for m in mismatches[:3]:
        lines.append(f"HARNESS-ERROR: pristine replay disagrees with the symbolic path: {json.dumps(m)[:1500]}")
    for u in hard_unconf[:3]:
        lines.append(f"HARNESS-ERROR: witness does not reproduce on the pristine code: {json.dumps(u)[:1500]}")
    for v in vacuous[:5]:
        lines.append(f"HARNESS-ERROR: vacuous scenario: {v}")
    if code == 2:
        lines.append(f"INCONCLUSIVE: abandoned paths={stats.get('abandoned', 0)} limits={limits[:5]} skipped={skipped} "
                     f"relaxed-unconfirmed={len(unconfirmed) - len(hard_unconf)} lemmas={[l['name'] for l in lemma_bad]}")
    # ---- evidence
    n_paths = tot.get("paths", 0)
    ev = {
        "property_id": prop, "tier": tier, "seed": seed, "level": level, "wall_s": round(wall, 2),
        "violations": len(seen_sig) + sum(1 for l in lemma_bad if l.get("confirmed")),
        "assumptions": list(assumptions) + sorted({a for r in reports for a in r.get("assumptions", [])}),
        "coverage": {
            "technique": technique,
            "functions_encoded": sorted(funcs),
            "bounds": {r["name"]: r["bounds"] for r in reports},
            "outside_the_claim": list(outside),
            "states": n_paths, "transitions": stats.get("decisions", 0) + stats.get("forced", 0),
            "traces_validated_against_impl": replays,
            "evaluations": tot.get("checks", 0) + len(lemmas),
            "distinct_nontrivial": tot.get("nontrivial", 0),
            "rule": "one evaluation = one assertion decided by the solver under one path condition (valid for every input that follows the path); "
                    "distinct_nontrivial = completed paths (distinct decision logs) that reached a property assertion with a non-empty observable",
            "queries_discharged": stats.get("queries", 0) + len(lemmas), "assertions_proved": tot.get("proved", 0), "assertions_failed": tot.get("failed_checks", 0),
            "decided_by_linear_store": stats.get("linear", 0),
            "solver_s": round(stats.get("solver_s", 0.0) + sum(l.get("solver_s", 0) for l in lemmas), 2),
            "paths_abandoned": stats.get("abandoned", 0), "paths_infeasible_or_cut": stats.get("aborted", 0),
            "scenarios": [{"name": r["name"], "paths": r["c"].get("paths", 0), "proved": r["c"].get("proved", 0), "checks": r["c"].get("checks", 0),
                           "queries": r["stats"].get("queries", 0), "solver_s": r["stats"].get("solver_s", 0), "wall_s": r["wall_s"],
                           "replays_ok": r["replays_ok"], "counters": {k: v for k, v in r["c"].items() if k.startswith("reach:") or k.startswith("n:")},
                           **({"skipped": r["skipped"]} if r.get("skipped") else {})} for r in reports],
            "samples": samples[:8] or [{"note": "no path witness recorded"}],
            "known_findings_seen": sorted(known_hit),
            "exit_code": code,
        },
    }
    if lemmas:
        ev["coverage"]["obligations"] = len(lemmas)
        ev["coverage"]["discharged"] = sum(1 for l in lemmas if l["status"] == "unsat")
        ev["coverage"]["lemmas"] = lemmas
        ev["coverage"]["checker_cmd"] = checker_cmd or "z3 5.1.0 (python API) and /usr/bin/z3 4.8.12 on the emitted SMT-LIB2"
        ev["coverage"]["trusted_base"] = list(trusted_base)
    with open(os.path.join(EVID, f"{prop}.json"), "w") as fh:
        json.dump(ev, fh, indent=1, default=str)
    for l in lines:
        print(l)
    print(f"[{prop}] tier={tier} exit={code} paths={n_paths} proved={tot.get('proved', 0)}/{tot.get('checks', 0)} queries={stats.get('queries', 0)} "
          f"solver={stats.get('solver_s', 0):.1f}s replays={replays} wall={wall:.1f}s", flush=True)
    return code
